#!/usr/bin/env python3
# Regenerates MANIFEST.json from manifest_src.json (claimed properties) and the plan files.
import json,glob
props=[json.loads(l)['id'] for l in open('/verif/properties.jsonl')]
src=json.load(open('/verif/manifest_src.json'))
na_reasons=json.load(open('/verif/manifest_na.json')) if glob.glob('/verif/manifest_na.json') else {}
checks=[]
for p in props:
    if p in src:
        s=src[p]
        checks.append({"property_id":p,"quick_cmd":f"./vcheck {p} quick","thorough_cmd":f"./vcheck {p} thorough","evidence_file":f"/verif/evidence/{p}.json",
          "replay_cmd_template":"./vcheck replay {path}","engine":"gosx",
          "level_claimed":{"category":s.get("category","model_checking"),"text":s["text"],"design_ref":s.get("design_ref","")},
          "level_note":s["note"],"technique":s["technique"]})
m={"version":1,"setup_cmd":"cd /verif && ./setup.sh",
 "hooks":{"guard":"verif","enable":"no hooks are needed: harnesses are injected through go/packages and go test -overlay; nothing is written into /repo","baseline_off_cmd":"cd /repo && go test -vet=off -count=1 -timeout 25m ./...","source_commits":[],"add_only":True},
 "engines":[{"name":"gosx","path":"/verif/engine","serves_properties":[c["property_id"] for c in checks],"kind_free_text":"symbolic executor for Go written for this task: interprets go/ssa of the real code of /repo and its dependencies with SMT terms for scalars; z3 decides branches and assertions; counterexamples replayed natively"}],
 "checks":checks,
 "not_applicable":[{"property_id":p,"reason":na_reasons.get(p,"check not built yet (work in progress in this session)")} for p in props if p not in src],
 "notes":"Every check: ./vcheck <id> quick|thorough. Fix commits in /repo: see known_findings.json (status fixed). Known findings (status known) are printed as KNOWN-FINDING lines."}
json.dump(m,open('/verif/MANIFEST.json','w'),indent=1)
print("claimed",len(checks),"na",len(m["not_applicable"]))
