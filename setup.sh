#!/bin/sh
# Builds the symbolic executor from the sources and vendored dependencies on disk (offline).
set -e
cd "$(dirname "$0")/engine"
mkdir -p ../bin ../evidence ../out ../build
GOFLAGS=-mod=vendor GOPROXY=off GOTOOLCHAIN=local GOSUMDB=off go1.26.8 build -o ../bin/gosx .
echo "gosx built"
