#!/bin/bash
# usage: tools_mutant.sh <property> <dir with patch.diff demo_test.go meta.json> [verify|detect|both] [tier]
# verify: in a scratch worktree of /repo HEAD: patch applies, builds, suite passes (3 baseline failures), demo fails with / passes without.
# detect: apply to /repo, run ./vcheck <property> <tier>, undo.
prop=$1; dir=$2; mode=${3:-both}; tier=${4:-quick}
patch=$dir/patch.diff
demo_path=$(python3 -c "import json;print(json.load(open('$dir/meta.json'))['demo_path'])")
runcmd=$(python3 -c "import json;print(json.load(open('$dir/meta.json'))['run'])")
if [ "$mode" = verify ] || [ "$mode" = both ]; then
  wt=/tmp/vm_$$; git -C /repo worktree add -q $wt HEAD || exit 9
  ( cd $wt
    if ! git apply --check $patch 2>/dev/null; then echo "VERIFY: patch does not apply to /repo HEAD"; exit 8; fi
    mkdir -p $(dirname $demo_path); cp $dir/demo_test.go $demo_path
    eval "$runcmd" > /tmp/vm_demo_clean.log 2>&1; rc_clean=$?
    git apply $patch
    go build ./... > /tmp/vm_build.log 2>&1; rc_build=$?
    eval "$runcmd" > /tmp/vm_demo_mut.log 2>&1; rc_mut=$?
    rm -f $demo_path
    go test -vet=off -count=1 ./... > /tmp/vm_suite.log 2>&1
    fails=$(grep -- "^--- FAIL" /tmp/vm_suite.log | grep -v "TestRoundtripSchemaSchema\|TestParseSchemaSchema\|TestParse " | wc -l)
    pkgfails=$(grep "^FAIL" /tmp/vm_suite.log | grep -v "schema/dmt\|schema/dsl\|^FAIL$" | wc -l)
    echo "VERIFY: demo_without_change_rc=$rc_clean (want 0) build_rc=$rc_build (want 0) demo_with_change_rc=$rc_mut (want !=0) unexpected_test_failures=$fails pkgfails=$pkgfails (want 0)"
  )
  git -C /repo worktree remove --force $wt
fi
if [ "$mode" = detect ] || [ "$mode" = both ]; then
  git -C /repo apply $patch || { echo "DETECT: patch does not apply"; exit 7; }
  cd /verif; timeout 3000 ./vcheck $prop $tier "${@:5}" > /tmp/vm_detect.log 2>&1; rc=$?
  git -C /repo checkout -- . ; git -C /repo status --short | head -3
  echo "DETECT: vcheck $prop $tier exit=$rc"; grep -E "^VIOLATION|reproduced natively|INCONCLUSIVE harness|type-check" /tmp/vm_detect.log | cut -c1-300 | head -6
fi
