#!/bin/bash
# usage: tools_mutant2.sh <property> <dir with patch.diff demo_test.go meta.json> [tier] [extra gosx flags]
# Verifies a seeded change and runs the property's check against it, entirely in a scratch
# worktree of /repo HEAD and a scratch copy of /verif (so several can run side by side and /repo
# is never touched). Prints VERIFY and DETECT lines; full check log in /tmp/m2_<prop>_<name>.log.
prop=$1; dir=$2; tier=${3:-quick}; shift; shift; shift
name=$(basename $dir); tag=${prop}_${name}_$$
patch=$dir/patch.diff
demo_path=$(python3 -c "import json;print(json.load(open('$dir/meta.json'))['demo_path'])")
runcmd=$(python3 -c "import json;print(json.load(open('$dir/meta.json'))['run'])")
wt=/tmp/dw_$tag; dv=/tmp/dv_$tag; export TMPDIR=/tmp/dt_$tag; mkdir -p $TMPDIR
git -C /repo worktree add -q --detach $wt HEAD || exit 9
cd $wt
if ! git apply --check $patch 2>/dev/null; then echo "VERIFY $prop/$name: patch does not apply to /repo HEAD"; cd /; git -C /repo worktree remove --force $wt; rm -rf $TMPDIR; exit 8; fi
if [ -n "$NOVERIFY" ]; then git apply $patch; else
mkdir -p $(dirname $demo_path); cp $dir/demo_test.go $demo_path
eval "$runcmd" > $TMPDIR/demo_clean.log 2>&1; rc_clean=$?
git apply $patch
go build ./... > $TMPDIR/build.log 2>&1; rc_build=$?
eval "$runcmd" > $TMPDIR/demo_mut.log 2>&1; rc_mut=$?
rm -f $demo_path
go test -vet=off -count=1 ./... > $TMPDIR/suite.log 2>&1
fails=$(grep -- "^--- FAIL" $TMPDIR/suite.log | grep -v "TestRoundtripSchemaSchema\|TestParseSchemaSchema\|TestParse " | wc -l)
pkgfails=$(grep "^FAIL" $TMPDIR/suite.log | grep -v "schema/dmt\|schema/dsl\|^FAIL$" | wc -l)
echo "VERIFY $prop/$name: demo_without_change_rc=$rc_clean (want 0) build_rc=$rc_build (want 0) demo_with_change_rc=$rc_mut (want !=0) unexpected_test_failures=$fails pkgfails=$pkgfails (want 0)"
[ "$fails$pkgfails" != "00" ] && cp $TMPDIR/suite.log /tmp/m2_${prop}_${name}_suite.log
git status --short | grep -v "^ M" | head -3
fi
mkdir -p $dv; rsync -a --exclude .git --exclude build --exclude out --exclude seeded --exclude bin --exclude engine /verif/ $dv/
unset GOTOOLCHAIN GOSUMDB; export GOFLAGS=-mod=mod GOPROXY=off
cd /verif; timeout 3000 /verif/bin/gosx check -prop $prop -tier $tier -repo $wt -verif $dv "$@" > /tmp/m2_${prop}_${name}.log 2>&1; rc=$?
echo "DETECT $prop/$name: exit=$rc $(grep -o 'reproduced natively: \[[a-z0-9-]*\]' /tmp/m2_${prop}_${name}.log | sort | uniq -c | tr '\n' ' ') $(grep -c INCONCLUSIVE /tmp/m2_${prop}_${name}.log) inconclusive-lines"
cd /; git -C /repo worktree remove --force $wt; rm -rf $dv $TMPDIR
