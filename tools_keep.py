#!/usr/bin/env python3
# usage: tools_keep.py <src dir> <name e.g. C07-m1> <detecting harnesses> <missed first: 0|1> [strengthening text]
import json, shutil, sys, os
src, name, harn, missed = sys.argv[1:5]
strength = sys.argv[5] if len(sys.argv) > 5 else ""
dst = os.path.join(os.path.dirname(os.path.abspath(__file__)), "seeded", name)
os.makedirs(dst, exist_ok=True)
for f in ("patch.diff", "demo_test.go"):
    shutil.copy(os.path.join(src, f), os.path.join(dst, f))
m = json.load(open(os.path.join(src, "meta.json")))
prop = name.split("-")[0]
m.update({
 "origin": "written by an independent sub-agent that saw only the property text and a scratch worktree of /repo (nothing from /verif)",
 "confirmed": "by tools_mutant.sh verify in a scratch worktree of /repo HEAD: patch applies, go build ok, full test suite passes except the 3 baseline failures, demo fails with the change and passes without it",
 "ran": "./tools_mutant.sh %s seeded/%s both  (git -C /repo apply patch.diff; ./vcheck %s quick; git -C /repo checkout -- .)" % (prop, name, prop),
 "detected_by_quick_check": harn != "",
 "detecting_harness": harn,
 "missed_by_the_check_as_first_built": missed == "1",
 "strengthening": strength,
})
json.dump(m, open(os.path.join(dst, "meta.json"), "w"), indent=1)
print("kept", dst)
