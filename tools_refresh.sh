#!/bin/bash
# Runs every quick (or thorough) check against /repo and prints one line per property.
tier=${1:-quick}
cd /verif
for i in $(seq -w 1 20); do
  p=C$i; t0=$(date +%s)
  timeout 7200 ./vcheck $p $tier > out/refresh_$p.log 2>&1; rc=$?
  t1=$(date +%s)
  echo "$p rc=$rc $((t1-t0))s $(grep -c '^VIOLATION' out/refresh_$p.log) violations $(grep -c '^KNOWN-FINDING' out/refresh_$p.log) known $(grep -o 'clean=[a-z]*' out/refresh_$p.log | tail -n 1)"
done
