package main

import (
	"bufio"
	"context"
	"encoding/json"
	"fmt"
	"os"
	"os/exec"
	"path/filepath"
	"sort"
	"strings"
	"time"
)

// Native side: the same harness sources compiled by the real toolchain against the real code
// (go test -c -overlay), used to (1) replay every solver counterexample before it is reported and
// (2) re-run sampled paths' models and compare observation logs (translator validation).

type BatchCase struct {
	ID      string            `json:"id"`
	Harness string            `json:"harness"`
	Vals    map[string]uint64 `json:"vals"`
	Known   []string          `json:"known"`
}

type BatchResult struct {
	ID             string   `json:"id"`
	Failures       []string `json:"failures"`
	Reached        []string `json:"reached"`
	Obs            []string `json:"obs"`
	KnownHit       []string `json:"known_hit"`
	Notes          []string `json:"notes,omitempty"`
	AssumeFailed   bool     `json:"assume_failed"`
	Panic          string   `json:"panic,omitempty"`
	UnknownHarness bool     `json:"unknown_harness,omitempty"`
	TimedOut       bool     `json:"timed_out,omitempty"`
}

type nativeBuild struct {
	pkgDir string // relative to repo
	bin    string
	done   chan struct{}
	err    error
	out    string
	dur    time.Duration
}

// genReplayTest writes the test file that exposes the harness functions of one package.
func genReplayTest(buildDir, repo, pkgDir, pkgName string, fns []string, ov *Overlay) {
	sort.Strings(fns)
	var sb strings.Builder
	fmt.Fprintf(&sb, "package %s\n\nimport (\n\t\"testing\"\n\n\tnd \"github.com/ipld/go-ipld-prime/internal/verifnd\"\n)\n\n", pkgName)
	sb.WriteString("func TestVerifReplay(t *testing.T) {\n\ths := map[string]func(){\n")
	for _, f := range fns {
		fmt.Fprintf(&sb, "\t\t%q: %s,\n", f, f)
	}
	sb.WriteString("\t}\n\tif !nd.BatchMain(hs) {\n\t\tt.Skip(\"no batch\")\n\t}\n}\n")
	gen := filepath.Join(buildDir, "gen", strings.ReplaceAll(pkgDir, "/", "_")+"_replay_test.go")
	os.MkdirAll(filepath.Dir(gen), 0o755)
	if err := os.WriteFile(gen, []byte(sb.String()), 0o644); err != nil {
		fatal("%v", err)
	}
	ov.Files[filepath.Join(repo, pkgDir, "zz_verif_replay_test.go")] = gen
}

func writeOverlayJSON(path string, ov *Overlay) {
	b, _ := json.MarshalIndent(map[string]interface{}{"Replace": ov.Files}, "", " ")
	if err := os.WriteFile(path, b, 0o644); err != nil {
		fatal("%v", err)
	}
}

func goEnv() []string {
	var env []string
	for _, e := range os.Environ() {
		if strings.HasPrefix(e, "GOFLAGS=") || strings.HasPrefix(e, "GOTOOLCHAIN=") || strings.HasPrefix(e, "GOSUMDB=") {
			continue
		}
		env = append(env, e)
	}
	return append(env, "GOFLAGS=-mod=mod", "GOPROXY=off")
}

func startNativeBuild(repo, buildDir, overlayJSON, pkgDir string, race bool) *nativeBuild {
	nb := &nativeBuild{pkgDir: pkgDir, bin: filepath.Join(buildDir, strings.ReplaceAll(pkgDir, "/", "_")+".test"), done: make(chan struct{})}
	go func() {
		defer close(nb.done)
		t0 := time.Now()
		args := []string{"test", "-c", "-vet=off", "-overlay", overlayJSON, "-o", nb.bin}
		if race {
			args = append(args, "-race")
		}
		cmd := exec.Command("go", append(args, "./"+pkgDir)...)
		cmd.Dir = repo
		cmd.Env = goEnv()
		out, err := cmd.CombinedOutput()
		nb.out, nb.err, nb.dur = string(out), err, time.Since(t0)
	}()
	return nb
}

// runBatch executes the cases natively. A case that crashes the process or hangs is isolated by
// re-running the remaining cases.
func (nb *nativeBuild) runBatch(buildDir string, cases []BatchCase, perCase time.Duration) (map[string]*BatchResult, error) {
	<-nb.done
	if nb.err != nil {
		return nil, fmt.Errorf("native build of %s failed: %v\n%s", nb.pkgDir, nb.err, nb.out)
	}
	res := map[string]*BatchResult{}
	remaining := cases
	round := 0
	for len(remaining) > 0 {
		round++
		in := filepath.Join(buildDir, fmt.Sprintf("batch_%s_%d.jsonl", filepath.Base(nb.bin), round))
		out := in + ".out"
		f, _ := os.Create(in)
		w := bufio.NewWriter(f)
		for _, c := range remaining {
			b, _ := json.Marshal(c)
			w.Write(b)
			w.WriteByte('\n')
		}
		w.Flush()
		f.Close()
		os.Remove(out)
		ctx, cancel := context.WithTimeout(context.Background(), perCase*time.Duration(len(remaining))+30*time.Second)
		cmd := exec.CommandContext(ctx, nb.bin, "-test.run", "^TestVerifReplay$", "-test.timeout", "0")
		cmd.Dir = buildDir
		cmd.Env = append(os.Environ(), "VERIF_BATCH="+in, "VERIF_OUT="+out, "GORACE=halt_on_error=1")
		outb, err := cmd.CombinedOutput()
		timedOut := ctx.Err() != nil
		cancel()
		got := 0
		if fo, e2 := os.Open(out); e2 == nil {
			sc := bufio.NewScanner(fo)
			sc.Buffer(make([]byte, 1<<20), 1<<26)
			for sc.Scan() {
				var r BatchResult
				if json.Unmarshal(sc.Bytes(), &r) == nil {
					rr := r
					res[r.ID] = &rr
					got++
				}
			}
			fo.Close()
		}
		if got >= len(remaining) {
			break
		}
		// the case after the last completed one killed the process (fatal error, os.Exit, hang)
		bad := remaining[got]
		msg := strings.TrimSpace(string(outb))
		if len(msg) > 3000 {
			msg = msg[:1500] + "\n[…]\n" + msg[len(msg)-1400:]
		}
		r := &BatchResult{ID: bad.ID, Panic: "process died: " + fmt.Sprint(err) + "\n" + msg}
		if timedOut {
			r.TimedOut = true
		}
		res[bad.ID] = r
		remaining = remaining[got+1:]
	}
	return res, nil
}
