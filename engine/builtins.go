package main

import (
	"fmt"
	"go/types"
	"os"

	"golang.org/x/tools/go/ssa"
)

func (m *Machine) callBuiltin(caller *frame, name string, args []value, site ssa.CallInstruction) value {
	switch name {
	case "gosx:swap":
		return nil // (dispatched in callValue, which has the Builtin value)
	case "len":
		switch x := args[0].(type) {
		case *String:
			return conc(64, uint64(len(x.b)))
		case Slice:
			return x.len
		case *Map:
			if x == nil {
				return conc(64, 0)
			}
			n := 0
			for _, e := range x.entries {
				if !e.dead {
					n++
				}
			}
			return conc(64, uint64(n))
		case Array:
			return conc(64, uint64(len(x)))
		case Ptr:
			return conc(64, uint64(len(m.load(x).(Array))))
		}
	case "cap":
		switch x := args[0].(type) {
		case Slice:
			return x.cap
		case Array:
			return conc(64, uint64(len(x)))
		}
	case "append":
		return m.appendOp(args[0].(Slice), args[1], site)
	case "copy":
		return m.copyOp(args[0].(Slice), args[1])
	case "panic":
		panic(&goPanic{v: args[0], msg: m.describePanic(args[0])})
	case "recover":
		// recover only effective when called directly by deferred function while panicking
		if caller != nil && caller.caller != nil && caller.caller.panicking != nil {
			p := caller.caller.panicking
			caller.caller.panicking = nil
			if os.Getenv("GOSX_DEBUG") != "" {
				fmt.Fprintf(os.Stderr, "RECOVERED in %s: %s\n", caller.caller.fn, p.msg)
			}
			return p.v
		}
		return Iface{}
	case "delete":
		mp := args[0].(*Map)
		if mp != nil {
			if e := m.mapFind(mp, args[1]); e != nil {
				e.dead = true
			}
		}
		return nil
	case "print", "println", "close":
		return nil
	case "min", "max":
		r := args[0].(Scalar)
		t := site.Common().Args[0].Type()
		for _, a := range args[1:] {
			b := a.(Scalar)
			var lt value
			if name == "min" {
				lt = m.binop(40 /*token.LSS*/, t, b, r)
			} else {
				lt = m.binop(41 /*token.GTR*/, t, b, r)
			}
			c := lt.(Scalar)
			if c.sym == nil {
				if c.c != 0 {
					r = b
				}
			} else {
				r = fromTerm(tIte(c.sym, b.term(widthOf(t)), r.term(widthOf(t))))
			}
		}
		return r
	case "clear":
		switch x := args[0].(type) {
		case *Map:
			if x != nil {
				for _, e := range x.entries {
					e.dead = true
				}
			}
		case Slice:
			n := m.concLen(x.len, "clear")
			et := site.Common().Args[0].Type().Underlying().(*types.Slice).Elem()
			for i := 0; i < n; i++ {
				m.setSliceElem(x, i, zero(et))
			}
		}
		return nil
	case "String": // unsafe.String
		p := args[0].(Ptr)
		n := m.concLen(args[1].(Scalar), "unsafe.String len")
		if n == 0 {
			return &String{}
		}
		if len(p.path) != 1 {
			m.stop("inconclusive", "unsafe.String on non-array-element pointer")
		}
		b := make([]Scalar, n)
		sl := Slice{arr: p.obj, off: p.path[0]}
		for i := 0; i < n; i++ {
			b[i] = m.sliceElem(sl, i).(Scalar)
		}
		return &String{b: b}
	case "StringData":
		x := args[0].(*String)
		arr := make(Array, len(x.b))
		for i, b := range x.b {
			arr[i] = b
		}
		return Ptr{obj: m.newObj(arr), path: []int{0}}
	case "SliceData":
		x := args[0].(Slice)
		if x.arr == nil {
			return Ptr{}
		}
		return Ptr{obj: x.arr, path: []int{x.off}}
	case "Slice": // unsafe.Slice
		p := args[0].(Ptr)
		n := args[1].(Scalar)
		if p.obj == nil {
			return Slice{}
		}
		if len(p.path) != 1 {
			m.stop("inconclusive", "unsafe.Slice on non-array-element pointer")
		}
		return Slice{arr: p.obj, off: p.path[0], len: n, cap: n}
	case "ssa:wrapnilchk":
		p := args[0]
		if pp, ok := p.(Ptr); ok && pp.obj == nil {
			m.goPanicStr("value method called using nil pointer")
		}
		return p
	}
	panic(fmt.Sprintf("builtin %s(%T...)", name, args[0]))
}

func (m *Machine) appendOp(s Slice, more value, site ssa.CallInstruction) value {
	var add []value
	switch x := more.(type) {
	case *String:
		for _, b := range x.b {
			add = append(add, b)
		}
	case Slice:
		n := m.concLen(x.len, "append src len")
		for i := 0; i < n; i++ {
			add = append(add, copyVal(m.sliceElem(x, i)))
		}
	}
	if len(add) == 0 {
		return s
	}
	ln := m.concLen(s.len, "append dst len")
	need := ln + len(add)
	// fits in cap?
	fits := false
	if s.arr != nil {
		if s.cap.sym == nil {
			fits = need <= int(s.cap.c)
		} else {
			fits = m.branch(tCmp("bvsle", tConst(64, uint64(need)), s.cap.sym))
		}
	}
	if fits {
		for i, v := range add {
			m.setSliceElem(s, ln+i, v)
		}
		return Slice{arr: s.arr, off: s.off, len: conc(64, uint64(need)), cap: s.cap}
	}
	// grow: Go's growslice (approx, without size classes)
	oldCap := 0
	if s.arr != nil {
		oldCap = m.concLen(s.cap, "append cap")
	}
	newCap := oldCap
	dbl := newCap + newCap
	if need > dbl {
		newCap = need
	} else if oldCap < 256 {
		newCap = dbl
	} else {
		for newCap < need {
			newCap += (newCap + 3*256) >> 2
		}
	}
	et := site.Common().Args[0].Type().Underlying().(*types.Slice).Elem()
	m.account(conc(64, uint64(int64(newCap)*sizeOf(et))))
	arr := make(Array, newCap)
	for i := 0; i < ln; i++ {
		arr[i] = copyVal(m.sliceElem(s, i))
	}
	for i, v := range add {
		arr[ln+i] = v
	}
	for i := need; i < newCap; i++ {
		arr[i] = zero(et)
	}
	return Slice{arr: m.newObj(arr), len: conc(64, uint64(need)), cap: conc(64, uint64(newCap))}
}

func (m *Machine) minLen(a, b Scalar) int {
	if a.sym == nil && b.sym == nil {
		if int64(a.c) < int64(b.c) {
			return int(a.c)
		}
		return int(b.c)
	}
	if m.branch(tCmp("bvsle", a.term(64), b.term(64))) {
		return m.concLen(a, "copy count")
	}
	return m.concLen(b, "copy count")
}

func (m *Machine) copyOp(dst Slice, src value) value {
	switch x := src.(type) {
	case *String:
		n := m.minLen(dst.len, conc(64, uint64(len(x.b))))
		for i := 0; i < n; i++ {
			m.setSliceElem(dst, i, x.b[i])
		}
		return conc(64, uint64(n))
	case Slice:
		n := m.minLen(dst.len, x.len)
		if n == 0 {
			return conc(64, 0)
		}
		tmp := make([]value, n)
		for i := 0; i < n; i++ {
			tmp[i] = copyVal(m.sliceElem(x, i))
		}
		for i := 0; i < n; i++ {
			m.setSliceElem(dst, i, tmp[i])
		}
		return conc(64, uint64(n))
	}
	panic("copy")
}

// ---------- maps ----------

func (m *Machine) keyEq(a, b value) *Term {
	switch x := a.(type) {
	case *String:
		return strEq(x, b.(*String))
	case Scalar:
		y := b.(Scalar)
		if x.sym == nil && y.sym == nil {
			return tBool(x.c == y.c)
		}
		w := 64
		if x.sym != nil {
			w = x.sym.w
		} else if y.sym != nil {
			w = y.sym.w
		}
		return tEq(x.term(w), y.term(w))
	case Iface:
		return m.ifaceEq(x, b.(Iface))
	case Ptr:
		y := b.(Ptr)
		return tBool(x.obj == y.obj && pathEq(x.path, y.path))
	case Struct:
		y := b.(Struct)
		r := tBool(true)
		for i := range x {
			r = tAnd(r, m.keyEq(x[i], y[i]))
		}
		return r
	case Array:
		y := b.(Array)
		r := tBool(true)
		for i := range x {
			r = tAnd(r, m.keyEq(x[i], y[i]))
		}
		return r
	}
	panic(fmt.Sprintf("keyEq %T", a))
}

func (m *Machine) mapFind(mp *Map, k value) *mapEntry {
	for _, e := range mp.entries {
		if e.dead {
			continue
		}
		eq := m.keyEq(e.k, k)
		if eq.isFalse() {
			continue
		}
		if eq.isTrue() || m.branch(eq) {
			return e
		}
	}
	return nil
}

func (m *Machine) mapSet(mp *Map, k, v value) {
	if e := m.mapFind(mp, k); e != nil {
		e.v = copyVal(v)
		return
	}
	mp.entries = append(mp.entries, &mapEntry{k: k, v: copyVal(v)})
}

func (m *Machine) lookup(in *ssa.Lookup, x value, k value) value {
	switch x := x.(type) {
	case *String:
		return m.index(x, k.(Scalar), in.Index.Type(), types.Typ[types.Uint8])
	case *Map:
		mt := in.X.Type().Underlying().(*types.Map)
		var e *mapEntry
		if x != nil {
			e = m.mapFind(x, k)
		}
		var v value
		if e != nil {
			v = copyVal(e.v)
		} else {
			v = zero(mt.Elem())
		}
		if in.CommaOk {
			return Tuple{v, boolS(e != nil)}
		}
		return v
	}
	panic("lookup")
}
