package main

import (
	"fmt"
	"go/token"
	"go/types"
	"math"
	"math/bits"

	"golang.org/x/tools/go/ssa"
)

func f64bits(f float64) uint64 { return math.Float64bits(f) }
func f32bits(f float32) uint32 { return math.Float32bits(f) }

func sx(v uint64, w int) int64 {
	if w >= 64 {
		return int64(v)
	}
	sh := uint(64 - w)
	return int64(v<<sh) >> sh
}

func (m *Machine) unop(fr *frame, in *ssa.UnOp) value {
	x := fr.get(in.X)
	if p, ok := x.(Poison); ok {
		return p
	}
	switch in.Op {
	case token.MUL: // load
		return m.load(x.(Ptr))
	case token.NOT:
		s := x.(Scalar)
		if s.sym == nil {
			return boolS(s.c == 0)
		}
		return fromTerm(tNot(s.sym))
	case token.SUB:
		s := x.(Scalar)
		w := widthOf(in.X.Type())
		if isFloat(in.X.Type()) {
			if s.sym != nil {
				return fromTerm(tBV("bvxor", s.sym, tConst(w, uint64(1)<<uint(w-1))))
			}
			if w == 32 {
				return conc(32, uint64(f32bits(-math.Float32frombits(uint32(s.c)))))
			}
			return conc(64, f64bits(-math.Float64frombits(s.c)))
		}
		if s.sym == nil {
			return conc(w, -s.c)
		}
		return fromTerm(tBvNeg(s.sym))
	case token.XOR:
		s := x.(Scalar)
		w := widthOf(in.X.Type())
		if s.sym == nil {
			return conc(w, ^s.c)
		}
		return fromTerm(tBvNot(s.sym))
	case token.ARROW:
		m.stop("inconclusive", "channel receive")
	}
	panic("unop " + in.Op.String())
}

var bvOp = map[token.Token]string{token.ADD: "bvadd", token.SUB: "bvsub", token.MUL: "bvmul", token.AND: "bvand", token.OR: "bvor", token.XOR: "bvxor"}

func (m *Machine) binop(op token.Token, t types.Type, xv, yv value) value {
	if p, ok := xv.(Poison); ok {
		return p
	}
	if p, ok := yv.(Poison); ok {
		return p
	}
	switch x := xv.(type) {
	case Scalar:
		y := yv.(Scalar)
		if isFloat(t) {
			return m.floatOp(op, t, x, y)
		}
		w := widthOf(t)
		if w == 0 {
			return m.boolOp(op, x, y)
		}
		if op == token.SHL || op == token.SHR {
			return m.shift(op, t, x, y)
		}
		signed := isSigned(t)
		if x.sym == nil && y.sym == nil {
			return m.concInt(op, w, signed, x.c, y.c)
		}
		a, b := x.term(w), y.term(w)
		switch op {
		case token.ADD, token.SUB, token.MUL, token.AND, token.OR, token.XOR:
			return fromTerm(tBV(bvOp[op], a, b))
		case token.AND_NOT:
			return fromTerm(tBV("bvand", a, tBvNot(b)))
		case token.QUO, token.REM:
			// division by zero check
			z := tEq(b, tConst(w, 0))
			if !z.isFalse() {
				if m.branch(z) {
					m.goPanicStr("runtime error: integer divide by zero")
				}
			}
			o := map[bool]map[token.Token]string{true: {token.QUO: "bvsdiv", token.REM: "bvsrem"}, false: {token.QUO: "bvudiv", token.REM: "bvurem"}}[signed][op]
			return fromTerm(tBV(o, a, b))
		case token.EQL:
			return fromTerm(tEq(a, b))
		case token.NEQ:
			return fromTerm(tNot(tEq(a, b)))
		case token.LSS, token.LEQ, token.GTR, token.GEQ:
			o := map[bool]map[token.Token]string{true: {token.LSS: "bvslt", token.LEQ: "bvsle", token.GTR: "bvsgt", token.GEQ: "bvsge"}, false: {token.LSS: "bvult", token.LEQ: "bvule", token.GTR: "bvugt", token.GEQ: "bvuge"}}[signed][op]
			return fromTerm(tCmp(o, a, b))
		}
		panic("binop int " + op.String())
	case *String:
		y := yv.(*String)
		switch op {
		case token.ADD:
			nb := make([]Scalar, 0, len(x.b)+len(y.b))
			nb = append(nb, x.b...)
			nb = append(nb, y.b...)
			return &String{b: nb}
		case token.EQL:
			return fromTerm(strEq(x, y))
		case token.NEQ:
			return fromTerm(tNot(strEq(x, y)))
		case token.LSS:
			return fromTerm(strLess(x, y, false))
		case token.LEQ:
			return fromTerm(strLess(x, y, true))
		case token.GTR:
			return fromTerm(strLess(y, x, false))
		case token.GEQ:
			return fromTerm(strLess(y, x, true))
		}
	case Ptr:
		y := yv.(Ptr)
		eq := x.obj == y.obj && pathEq(x.path, y.path)
		if op == token.EQL {
			return boolS(eq)
		}
		return boolS(!eq)
	case Iface:
		y := yv.(Iface)
		eq := m.ifaceEq(x, y)
		if op == token.NEQ {
			return fromTerm(tNot(eq))
		}
		return fromTerm(eq)
	case *Map:
		y := yv.(*Map)
		if op == token.EQL {
			return boolS(x == y)
		}
		return boolS(x != y)
	case *Closure:
		y := yv.(*Closure)
		if op == token.EQL {
			return boolS(x == y)
		}
		return boolS(x != y)
	case Slice:
		y := yv.(Slice)
		e := x.arr == nil && y.arr == nil
		if op == token.EQL {
			return boolS(e)
		}
		return boolS(!e)
	case Struct, Array:
		eq := m.valEq(xv, yv, t)
		if op == token.NEQ {
			return fromTerm(tNot(eq))
		}
		return fromTerm(eq)
	case nil:
		if op == token.EQL {
			return boolS(yv == nil)
		}
		return boolS(yv != nil)
	}
	panic(fmt.Sprintf("binop %v on %T", op, xv))
}

func pathEq(a, b []int) bool {
	if len(a) != len(b) {
		return false
	}
	for i := range a {
		if a[i] != b[i] {
			return false
		}
	}
	return true
}

// valEq: structural equality of comparable values of static type t.
func (m *Machine) valEq(x, y value, t types.Type) *Term {
	switch u := t.Underlying().(type) {
	case *types.Basic:
		if u.Info()&types.IsString != 0 {
			return strEq(x.(*String), y.(*String))
		}
		if u.Kind() == types.UnsafePointer {
			return tBool(x.(Ptr).obj == y.(Ptr).obj && pathEq(x.(Ptr).path, y.(Ptr).path))
		}
		w := widthOf(u)
		if isFloat(u) {
			r := m.floatOp(token.EQL, t, x.(Scalar), y.(Scalar))
			if s, ok := r.(Scalar); ok {
				return s.term(0)
			}
			m.stop("inconclusive", "float eq poison")
		}
		return tEq(x.(Scalar).term(w), y.(Scalar).term(w))
	case *types.Struct:
		r := tBool(true)
		xs, ys := x.(Struct), y.(Struct)
		for i := range xs {
			r = tAnd(r, m.valEq(xs[i], ys[i], u.Field(i).Type()))
		}
		return r
	case *types.Array:
		r := tBool(true)
		xs, ys := x.(Array), y.(Array)
		for i := range xs {
			r = tAnd(r, m.valEq(xs[i], ys[i], u.Elem()))
		}
		return r
	case *types.Pointer:
		return tBool(x.(Ptr).obj == y.(Ptr).obj && pathEq(x.(Ptr).path, y.(Ptr).path))
	case *types.Interface:
		return m.ifaceEq(x.(Iface), y.(Iface))
	case *types.Map:
		return tBool(x.(*Map) == y.(*Map))
	case *types.Signature:
		return tBool(x.(*Closure) == y.(*Closure))
	case *types.Chan:
		return tBool(x == y)
	}
	panic(fmt.Sprintf("valEq: %v", t))
}

func (m *Machine) ifaceEq(x, y Iface) *Term {
	if x.t == nil || y.t == nil {
		return tBool(x.t == nil && y.t == nil)
	}
	if !types.Identical(x.t, y.t) {
		return tBool(false)
	}
	if xn, ok := x.v.(*Native); ok {
		yn, ok2 := y.v.(*Native)
		if !ok2 {
			return tBool(false)
		}
		xt, ok3 := xn.data.(types.Type)
		yt, ok4 := yn.data.(types.Type)
		if ok3 && ok4 {
			return tBool(types.Identical(xt, yt))
		}
		return tBool(xn == yn)
	}
	if !types.Comparable(x.t) {
		m.goPanicStr("runtime error: comparing uncomparable type " + x.t.String())
	}
	return m.valEq(x.v, y.v, x.t)
}

func strEq(x, y *String) *Term {
	if len(x.b) != len(y.b) {
		return tBool(false)
	}
	r := termTrue
	for i := range x.b {
		a, b := x.b[i], y.b[i]
		if a.sym == nil && b.sym == nil {
			if a.c != b.c {
				return termFalse
			}
			continue
		}
		r = tAnd(r, tEq(a.term(8), b.term(8)))
		if r.isFalse() {
			return r
		}
	}
	return r
}

// strLess: x < y (or <= if orEq), lexicographic bytewise.
func strLess(x, y *String, orEq bool) *Term {
	n := len(x.b)
	if len(y.b) < n {
		n = len(y.b)
	}
	// result if all first n equal
	var tail *Term
	if len(x.b) < len(y.b) {
		tail = tBool(true)
	} else if len(x.b) == len(y.b) {
		tail = tBool(orEq)
	} else {
		tail = tBool(false)
	}
	r := tail
	for i := n - 1; i >= 0; i-- {
		a, b := x.b[i].term(8), y.b[i].term(8)
		if a.isConst() && b.isConst() {
			if a.cv < b.cv {
				r = tBool(true)
			} else if a.cv > b.cv {
				r = tBool(false)
			}
			continue
		}
		r = tIte(tCmp("bvult", a, b), tBool(true), tIte(tEq(a, b), r, tBool(false)))
	}
	return r
}

func (m *Machine) boolOp(op token.Token, x, y Scalar) value {
	a, b := x.term(0), y.term(0)
	switch op {
	case token.EQL:
		return fromTerm(tNot(mkXor(a, b)))
	case token.NEQ:
		return fromTerm(mkXor(a, b))
	case token.AND, token.LAND:
		return fromTerm(tAnd(a, b))
	case token.OR, token.LOR:
		return fromTerm(tOr(a, b))
	}
	panic("boolOp " + op.String())
}
func mkXor(a, b *Term) *Term {
	if a.isConst() && b.isConst() {
		return tBool(a.isTrue() != b.isTrue())
	}
	if a.isConst() {
		a, b = b, a
	}
	if b.isFalse() {
		return a
	}
	if b.isTrue() {
		return tNot(a)
	}
	return mkTerm(Term{op: "xor", args: []*Term{a, b}})
}

func (m *Machine) concInt(op token.Token, w int, signed bool, x, y uint64) value {
	switch op {
	case token.ADD:
		return conc(w, x+y)
	case token.SUB:
		return conc(w, x-y)
	case token.MUL:
		return conc(w, x*y)
	case token.AND:
		return conc(w, x&y)
	case token.OR:
		return conc(w, x|y)
	case token.XOR:
		return conc(w, x^y)
	case token.AND_NOT:
		return conc(w, x&^y)
	case token.QUO, token.REM:
		if y == 0 {
			m.goPanicStr("runtime error: integer divide by zero")
		}
		if signed {
			a, b := sx(x, w), sx(y, w)
			if op == token.QUO {
				if b == -1 {
					return conc(w, uint64(-a))
				}
				return conc(w, uint64(a/b))
			}
			if b == -1 {
				return conc(w, 0)
			}
			return conc(w, uint64(a%b))
		}
		if op == token.QUO {
			return conc(w, x/y)
		}
		return conc(w, x%y)
	case token.EQL:
		return boolS(x == y)
	case token.NEQ:
		return boolS(x != y)
	}
	if signed {
		a, b := sx(x, w), sx(y, w)
		switch op {
		case token.LSS:
			return boolS(a < b)
		case token.LEQ:
			return boolS(a <= b)
		case token.GTR:
			return boolS(a > b)
		case token.GEQ:
			return boolS(a >= b)
		}
	} else {
		switch op {
		case token.LSS:
			return boolS(x < y)
		case token.LEQ:
			return boolS(x <= y)
		case token.GTR:
			return boolS(x > y)
		case token.GEQ:
			return boolS(x >= y)
		}
	}
	panic("concInt " + op.String())
}

func (m *Machine) shift(op token.Token, t types.Type, x, y Scalar) value {
	w := widthOf(t)
	signed := isSigned(t)
	// Note: y's width may differ; we assume shift count already converted by SSA to some uint type; treat as 64-bit value
	if x.sym == nil && y.sym == nil {
		n := y.c
		if op == token.SHL {
			if n >= uint64(w) {
				return conc(w, 0)
			}
			return conc(w, x.c<<n)
		}
		if signed {
			a := sx(x.c, w)
			if n >= uint64(w) {
				n = uint64(w - 1)
			}
			return conc(w, uint64(a>>n))
		}
		if n >= uint64(w) {
			return conc(w, 0)
		}
		return conc(w, x.c>>n)
	}
	a := x.term(w)
	var b *Term
	if y.sym == nil {
		c := y.c
		if c > uint64(w) {
			c = uint64(w)
		}
		b = tConst(w, c)
	} else {
		yt := y.sym
		// saturate to width w
		if yt.w > w {
			big := tCmp("bvuge", yt, tConst(yt.w, uint64(w)))
			b = tIte(big, tConst(w, uint64(w)), tExtract(w-1, 0, yt))
		} else {
			b = tZext(yt, w)
		}
	}
	if op == token.SHL {
		return fromTerm(tBV("bvshl", a, b))
	}
	if signed {
		return fromTerm(tBV("bvashr", a, b))
	}
	return fromTerm(tBV("bvlshr", a, b))
}

func (m *Machine) floatOp(op token.Token, t types.Type, x, y Scalar) value {
	w := widthOf(t)
	if x.sym == nil && y.sym == nil {
		var a, b float64
		if w == 32 {
			a, b = float64(math.Float32frombits(uint32(x.c))), float64(math.Float32frombits(uint32(y.c)))
		} else {
			a, b = math.Float64frombits(x.c), math.Float64frombits(y.c)
		}
		mk := func(f float64) value {
			if w == 32 {
				return conc(32, uint64(f32bits(float32(f))))
			}
			return conc(64, f64bits(f))
		}
		switch op {
		case token.ADD:
			return mk(a + b)
		case token.SUB:
			return mk(a - b)
		case token.MUL:
			return mk(a * b)
		case token.QUO:
			return mk(a / b)
		case token.EQL:
			return boolS(a == b)
		case token.NEQ:
			return boolS(a != b)
		case token.LSS:
			return boolS(a < b)
		case token.LEQ:
			return boolS(a <= b)
		case token.GTR:
			return boolS(a > b)
		case token.GEQ:
			return boolS(a >= b)
		}
	}
	fp := func(s Scalar) *Term {
		return mkTerm(Term{op: fmt.Sprintf("(_ to_fp %d %d)", map[int]int{32: 8, 64: 11}[w], map[int]int{32: 24, 64: 53}[w]), w: -w, args: []*Term{s.term(w)}})
	}
	a, b := fp(x), fp(y)
	switch op {
	case token.EQL:
		return fromTerm(tCmp("fp.eq", a, b))
	case token.NEQ:
		return fromTerm(tNot(tCmp("fp.eq", a, b)))
	case token.LSS:
		return fromTerm(tCmp("fp.lt", a, b))
	case token.LEQ:
		return fromTerm(tCmp("fp.leq", a, b))
	case token.GTR:
		return fromTerm(tCmp("fp.gt", a, b))
	case token.GEQ:
		return fromTerm(tCmp("fp.geq", a, b))
	}
	var fop string
	switch op {
	case token.ADD:
		fop = "fp.add RNE"
	case token.SUB:
		fop = "fp.sub RNE"
	case token.MUL:
		fop = "fp.mul RNE"
	case token.QUO:
		fop = "fp.div RNE"
	default:
		return Poison{"symbolic float operation " + op.String()}
	}
	r := mkTerm(Term{op: fop, w: -w, args: []*Term{a, b}})
	return fromTerm(mkTerm(Term{op: "fp.to_ieee_bv", w: w, args: []*Term{r}}))
}

func (m *Machine) convert(src, dst types.Type, x value) value {
	su, du := src.Underlying(), dst.Underlying()
	if p, ok := x.(Poison); ok {
		return p
	}
	// string conversions
	if isString(du) {
		switch s := su.(type) {
		case *types.Basic:
			if s.Info()&types.IsString != 0 {
				return x
			}
			if s.Info()&types.IsInteger != 0 {
				sc := x.(Scalar)
				if sc.sym != nil {
					sc = conc(64, uint64(m.concretize(sc.sym, widthOf(s), "string(rune)")))
				}
				return strOf(string(rune(sx(sc.c, widthOf(s)))))
			}
		case *types.Slice:
			sl := x.(Slice)
			n := m.concLen(sl.len, "string([]byte) length")
			if eb, ok := s.Elem().Underlying().(*types.Basic); ok && eb.Kind() == types.Int32 {
				// []rune
				rs := make([]rune, n)
				for i := 0; i < n; i++ {
					e := m.sliceElem(sl, i).(Scalar)
					if e.sym != nil {
						m.stop("inconclusive", "string([]rune) symbolic")
					}
					rs[i] = rune(e.c)
				}
				return strOf(string(rs))
			}
			b := make([]Scalar, n)
			for i := 0; i < n; i++ {
				b[i] = m.sliceElem(sl, i).(Scalar)
			}
			return &String{b: b}
		}
	}
	if sl, ok := du.(*types.Slice); ok && isString(su) {
		s := x.(*String)
		if eb, ok := sl.Elem().Underlying().(*types.Basic); ok && eb.Kind() == types.Int32 {
			c, okc := s.concrete()
			if !okc {
				m.stop("inconclusive", "[]rune(symbolic string)")
			}
			rs := []rune(c)
			arr := make(Array, len(rs))
			for i, r := range rs {
				arr[i] = conc(32, uint64(r))
			}
			return Slice{arr: m.newObj(arr), len: conc(64, uint64(len(rs))), cap: conc(64, uint64(len(rs)))}
		}
		arr := make(Array, len(s.b))
		for i, b := range s.b {
			arr[i] = b
		}
		return Slice{arr: m.newObj(arr), len: conc(64, uint64(len(arr))), cap: conc(64, uint64(len(arr)))}
	}
	// pointer <-> unsafe.Pointer
	if _, ok := x.(Ptr); ok {
		return x
	}
	sb, ok1 := su.(*types.Basic)
	db, ok2 := du.(*types.Basic)
	if !ok1 || !ok2 {
		if _, ok := x.(Slice); ok { // slice to slice of same underlying
			return x
		}
		panic(fmt.Sprintf("convert %v -> %v", src, dst))
	}
	sc := x.(Scalar)
	sw, dw := widthOf(sb), widthOf(db)
	sf, df := sb.Info()&types.IsFloat != 0, db.Info()&types.IsFloat != 0
	switch {
	case !sf && !df:
		if sc.sym == nil {
			if isSigned(sb) {
				return conc(dw, uint64(sx(sc.c, sw)))
			}
			return conc(dw, sc.c)
		}
		t := sc.sym
		if dw < sw {
			return fromTerm(tExtract(dw-1, 0, t))
		}
		if dw == sw {
			return sc
		}
		if isSigned(sb) {
			return fromTerm(tSext(t, dw))
		}
		return fromTerm(tZext(t, dw))
	case sf && df:
		if sc.sym == nil {
			if sw == 32 && dw == 64 {
				return conc(64, f64bits(float64(math.Float32frombits(uint32(sc.c)))))
			}
			if sw == 64 && dw == 32 {
				return conc(32, uint64(f32bits(float32(math.Float64frombits(sc.c)))))
			}
			return sc
		}
		if sw == dw {
			return sc
		}
		// symbolic float width conversion via FP theory then back to bits: fp.to_ieee_bv is not standard for NaN; use z3's fp.to_ieee_bv
		eb, sbits := 11, 53
		if dw == 32 {
			eb, sbits = 8, 24
		}
		seb, ssb := 11, 53
		if sw == 32 {
			seb, ssb = 8, 24
		}
		fpx := mkTerm(Term{op: fmt.Sprintf("(_ to_fp %d %d)", seb, ssb), w: -sw, args: []*Term{sc.sym}})
		cv := mkTerm(Term{op: fmt.Sprintf("(_ to_fp %d %d) RNE", eb, sbits), w: -dw, args: []*Term{fpx}})
		return fromTerm(mkTerm(Term{op: "fp.to_ieee_bv", w: dw, args: []*Term{cv}}))
	case !sf && df:
		if sc.sym != nil {
			// IEEE round-to-nearest-even conversion, as Go specifies
			eb, sbits := 11, 53
			if dw == 32 {
				eb, sbits = 8, 24
			}
			op := fmt.Sprintf("(_ to_fp %d %d) RNE", eb, sbits)
			if !isSigned(sb) {
				op = fmt.Sprintf("(_ to_fp_unsigned %d %d) RNE", eb, sbits)
			}
			cv := mkTerm(Term{op: op, w: -dw, args: []*Term{sc.sym}})
			return fromTerm(mkTerm(Term{op: "fp.to_ieee_bv", w: dw, args: []*Term{cv}}))
		}
		var f float64
		if isSigned(sb) {
			f = float64(sx(sc.c, sw))
		} else {
			f = float64(sc.c)
		}
		if dw == 32 {
			return conc(32, uint64(f32bits(float32(f))))
		}
		return conc(64, f64bits(f))
	default: // float -> int
		if sc.sym != nil {
			return Poison{"float->int symbolic"}
		}
		var f float64
		if sw == 32 {
			f = float64(math.Float32frombits(uint32(sc.c)))
		} else {
			f = math.Float64frombits(sc.c)
		}
		if isSigned(db) {
			return conc(dw, uint64(int64(f)))
		}
		return conc(dw, uint64(f))
	}
}

// ---------- slices, arrays, strings ----------

func (m *Machine) concLen(s Scalar, why string) int {
	if s.sym == nil {
		return int(s.c)
	}
	return int(m.concretize(s.sym, 64, why))
}

func (m *Machine) sliceElem(s Slice, i int) value {
	if s.arr.grow != nil {
		m.growTo(s.arr, s.off+i+1)
	}
	arr := s.arr.v.(Array)
	return arr[s.off+i]
}
func (m *Machine) setSliceElem(s Slice, i int, v value) {
	if m.frozen {
		// append into spare capacity, copy, and swaps write through the slice into its array
		m.checkWrite(s.arr, "slice element", nil)
	}
	if s.arr.grow != nil {
		m.growTo(s.arr, s.off+i+1)
	}
	arr := s.arr.v.(Array)
	if !assignInPlace(arr[s.off+i], v) {
		arr[s.off+i] = copyVal(v)
	}
}

// checkBound asserts 0 <= idx < limit (both 64-bit signed), panicking in Go terms if violated.
func (m *Machine) inBounds(idx Scalar, limit Scalar, strict bool, what string) {
	if idx.sym == nil && limit.sym == nil {
		i, l := int64(idx.c), int64(limit.c)
		if i < 0 || i > l || (strict && i == l) {
			m.goPanicStr(fmt.Sprintf("runtime error: %s out of range [%d] with length %d", what, i, l))
		}
		return
	}
	a, b := idx.term(64), limit.term(64)
	var ok *Term
	if strict {
		ok = tAnd(tCmp("bvsge", a, tConst(64, 0)), tCmp("bvslt", a, b))
	} else {
		ok = tAnd(tCmp("bvsge", a, tConst(64, 0)), tCmp("bvsle", a, b))
	}
	if !m.branch(ok) {
		m.goPanicStr("runtime error: " + what + " out of range (symbolic)")
	}
}

func (m *Machine) idx64(i Scalar, t types.Type) Scalar {
	w := widthOf(t)
	if w == 64 {
		return i
	}
	if i.sym == nil {
		if isSigned(t) {
			return conc(64, uint64(sx(i.c, w)))
		}
		return conc(64, i.c)
	}
	if isSigned(t) {
		return fromTerm(tSext(i.sym, 64))
	}
	return fromTerm(tZext(i.sym, 64))
}

func (m *Machine) indexAddr(x value, i Scalar, it types.Type) value {
	i = m.idx64(i, it)
	switch x := x.(type) {
	case Slice:
		m.inBounds(i, x.len, true, "index")
		if i.sym != nil && x.len.sym == nil && x.len.c <= 512 {
			return Ptr{obj: x.arr, path: []int{x.off}, sym: i.sym, symN: int(x.len.c)}
		}
		k := m.concLen(i, "slice index address")
		return Ptr{obj: x.arr, path: []int{x.off + k}}
	case Ptr:
		if x.obj == nil {
			m.goPanicStr("runtime error: invalid memory address or nil pointer dereference")
		}
		var arr Array
		c, ci, whole := m.resolve(x)
		if whole != nil {
			arr = whole.v.(Array)
		} else {
			arr = elemOf(c, ci).(Array)
		}
		m.inBounds(i, conc(64, uint64(len(arr))), true, "index")
		if i.sym != nil && len(arr) <= 512 {
			np := make([]int, len(x.path)+1)
			copy(np, x.path)
			np[len(x.path)] = 0
			return Ptr{obj: x.obj, path: np, sym: i.sym, symN: len(arr)}
		}
		k := m.concLen(i, "array index address")
		np := make([]int, len(x.path)+1)
		copy(np, x.path)
		np[len(x.path)] = k
		return Ptr{obj: x.obj, path: np}
	}
	panic(fmt.Sprintf("indexAddr %T", x))
}

func (m *Machine) index(x value, i Scalar, it types.Type, rt types.Type) value {
	i = m.idx64(i, it)
	switch x := x.(type) {
	case *String:
		m.inBounds(i, conc(64, uint64(len(x.b))), true, "index")
		if i.sym == nil {
			return x.b[i.c]
		}
		return m.iteChain(i.sym, len(x.b), func(k int) Scalar { return x.b[k] }, 8)
	case Array:
		m.inBounds(i, conc(64, uint64(len(x))), true, "index")
		if i.sym == nil {
			return copyVal(x[i.c])
		}
		if w := widthOf(rt); w >= 0 && len(x) <= 512 {
			return m.iteChain(i.sym, len(x), func(k int) Scalar { return x[k].(Scalar) }, w)
		}
		k := m.concretize(i.sym, 64, "array index")
		return copyVal(x[k])
	}
	panic(fmt.Sprintf("index %T", x))
}

func (m *Machine) iteChain(idx *Term, n int, at func(int) Scalar, w int) Scalar {
	// narrow the index if it is a zero-extension
	if idx.op == "zext" && uint64(n-1) <= mask(idx.args[0].w) {
		idx = idx.args[0]
	}
	elems := make([]*Term, n)
	for k := 0; k < n; k++ {
		elems[k] = at(k).term(w)
	}
	// balanced tree over maximal runs of equal elements
	type run struct {
		lo, hi int
		v      *Term
	}
	var runs []run
	for k := 0; k < n; k++ {
		if len(runs) > 0 && runs[len(runs)-1].v == elems[k] {
			runs[len(runs)-1].hi = k
		} else {
			runs = append(runs, run{k, k, elems[k]})
		}
	}
	var build func(a, b int) *Term
	build = func(a, b int) *Term {
		if a == b {
			return runs[a].v
		}
		mid := (a + b) / 2
		c := tCmp("bvule", idx, tConst(idx.w, uint64(runs[mid].hi)))
		return tIte(c, build(a, mid), build(mid+1, b))
	}
	return fromTerm(build(0, len(runs)-1))
}

// sizeOf: the size in bytes of a value of type t on amd64 (for allocation accounting and the
// makeslice range check).
func sizeOf(t types.Type) int64 {
	switch u := t.Underlying().(type) {
	case *types.Basic:
		switch {
		case u.Info()&types.IsString != 0:
			return 16
		case u.Kind() == types.UnsafePointer:
			return 8
		}
		if w := widthOf(u); w > 0 {
			return int64(w / 8)
		}
		return 1
	case *types.Pointer, *types.Map, *types.Chan, *types.Signature:
		return 8
	case *types.Slice:
		return 24
	case *types.Interface:
		return 16
	case *types.Struct:
		n := int64(0)
		for i := 0; i < u.NumFields(); i++ {
			sz := sizeOf(u.Field(i).Type())
			al := sz
			if al > 8 {
				al = 8
			}
			if al > 0 && n%al != 0 {
				n += al - n%al
			}
			n += sz
		}
		if n%8 != 0 && n > 8 {
			n += 8 - n%8
		}
		return n
	case *types.Array:
		return u.Len() * sizeOf(u.Elem())
	}
	return 8
}

// account adds n bytes (possibly a term) to the allocation counter (nd.AllocStart/AllocBytes).
func (m *Machine) account(n Scalar) {
	if !m.allocOn {
		return
	}
	if n.sym == nil && m.allocBytes.sym == nil {
		m.allocBytes = conc(64, m.allocBytes.c+n.c)
		return
	}
	m.allocBytes = fromTerm(tBV("bvadd", m.allocBytes.term(64), n.term(64)))
}

// maxAllocBytes: a make whose size can exceed this is reported as a crash (Go panics above 2^48
// bytes and dies with "out of memory" long before on any real machine).
const maxAllocBytes = int64(1) << 36

func (m *Machine) makeSlice(t types.Type, ln, cp Scalar, lt types.Type) value {
	ln, cp = m.idx64(ln, lt), m.idx64(cp, lt)
	et := t.Underlying().(*types.Slice).Elem()
	esz := sizeOf(et)
	if esz < 1 {
		esz = 1
	}
	maxElems := maxAllocBytes / esz
	if ln.sym == nil && cp.sym == nil {
		if int64(ln.c) < 0 || int64(ln.c) > maxElems {
			m.goPanicStr("runtime error: makeslice: len out of range")
		}
		if int64(cp.c) < int64(ln.c) || int64(cp.c) > maxElems {
			m.goPanicStr("runtime error: makeslice: cap out of range")
		}
		n := int(cp.c)
		if n > 1<<22 {
			m.stop("inconclusive", "huge concrete make %d", n)
		}
		m.account(conc(64, uint64(int64(n)*esz)))
		arr := make(Array, n)
		z := zero(et)
		if _, ok := z.(Scalar); ok {
			for i := range arr {
				arr[i] = z
			}
		} else {
			for i := range arr {
				arr[i] = zero(et)
			}
		}
		return Slice{arr: m.newObj(arr), len: ln, cap: cp}
	}
	l, c := ln.term(64), cp.term(64)
	ok := tAnd(tAnd(tCmp("bvsge", l, tConst(64, 0)), tCmp("bvsle", l, c)), tCmp("bvsle", c, tConst(64, uint64(maxElems))))
	if !m.branch(ok) {
		m.goPanicStr("runtime error: makeslice: len/cap out of range or beyond available memory (size controlled by input)")
	}
	m.account(fromTerm(tBV("bvmul", c, tConst(64, uint64(esz)))))
	// symbolic capacity: sparse array grows on demand
	o := m.newObj(Array{})
	o.grow = zero(et)
	return Slice{arr: o, len: ln, cap: cp}
}

func (m *Machine) growTo(o *Obj, n int) {
	arr := o.v.(Array)
	if n > 1<<20 {
		m.stop("inconclusive", "growable array too large")
	}
	for len(arr) < n {
		arr = append(arr, copyVal(o.grow))
	}
	o.v = arr
}

func (m *Machine) sliceOp(fr *frame, in *ssa.Slice) value {
	x := fr.get(in.X)
	var lo, hi, max *Scalar
	gv := func(v ssa.Value) *Scalar {
		if v == nil {
			return nil
		}
		s := m.idx64(fr.get(v).(Scalar), v.Type())
		return &s
	}
	lo, hi, max = gv(in.Low), gv(in.High), gv(in.Max)
	switch x := x.(type) {
	case *String:
		n := len(x.b)
		l, h := 0, n
		if hi != nil {
			m.inBounds(*hi, conc(64, uint64(n)), false, "slice bounds")
			h = m.concLen(*hi, "string slice hi")
		}
		if lo != nil {
			m.inBounds(*lo, conc(64, uint64(h)), false, "slice bounds")
			l = m.concLen(*lo, "string slice lo")
		}
		return &String{b: x.b[l:h]}
	case Slice:
		capS := x.cap
		h := x.len
		if hi != nil {
			m.inBounds(*hi, capS, false, "slice bounds")
			h = *hi
		}
		mx := capS
		if max != nil {
			m.inBounds(*max, capS, false, "slice bounds")
			mx = *max
			m.inBounds(h, mx, false, "slice bounds")
		}
		l := 0
		if lo != nil {
			m.inBounds(*lo, h, false, "slice bounds")
			l = m.concLen(*lo, "slice lo")
		}
		if x.arr == nil {
			return Slice{}
		}
		return Slice{arr: x.arr, off: x.off + l, len: m.subS(h, l), cap: m.subS(mx, l)}
	case Ptr: // pointer to array
		var arr Array
		c, ci, whole := m.resolve(x)
		if whole != nil {
			arr = whole.v.(Array)
		} else {
			arr = elemOf(c, ci).(Array)
		}
		n := len(arr)
		h := conc(64, uint64(n))
		if hi != nil {
			m.inBounds(*hi, conc(64, uint64(n)), false, "slice bounds")
			h = *hi
		}
		l := 0
		if lo != nil {
			m.inBounds(*lo, h, false, "slice bounds")
			l = m.concLen(*lo, "slice lo")
		}
		// need an Obj whose v is this array: if path nonempty, create alias object? Arrays inside structs: we alias by wrapping.
		var ao *Obj
		if whole != nil {
			ao = whole
		} else {
			ao = m.aliasObj(x, arr)
		}
		return Slice{arr: ao, off: l, len: m.subS(h, l), cap: conc(64, uint64(n-l))}
	}
	panic(fmt.Sprintf("sliceOp %T", x))
}

// aliasObj: returns an Obj sharing the same underlying Array storage (Go slices share backing arrays).
func (m *Machine) aliasObj(p Ptr, arr Array) *Obj {
	// Array is a Go slice header: sharing arr shares storage as long as nobody replaces the container element.
	key := fmt.Sprint(p.path)
	t := m.aliasTab[p.obj]
	if t == nil {
		t = map[string]*Obj{}
		m.aliasTab[p.obj] = t
	}
	if o, ok := t[key]; ok && len(o.v.(Array)) == len(arr) && (len(arr) == 0 || &o.v.(Array)[0] == &arr[0]) {
		return o
	}
	o := m.newObj(arr)
	o.id, o.global, o.name = p.obj.id, p.obj.global, p.obj.name // same memory: same identity for the write monitor
	t[key] = o
	return o
}

func (m *Machine) subS(a Scalar, k int) Scalar {
	if a.sym == nil {
		return conc(64, a.c-uint64(k))
	}
	if k == 0 {
		return a
	}
	return fromTerm(tBV("bvsub", a.sym, tConst(64, uint64(k))))
}

var _ = bits.Len
