package main

import (
	"crypto/sha256"
	"encoding/hex"
	"encoding/json"
	"flag"
	"fmt"
	"os"
	"os/exec"
	"path/filepath"
	"runtime/pprof"
	"sort"
	"strconv"
	"strings"
	"time"

	"golang.org/x/tools/go/packages"
	"golang.org/x/tools/go/ssa"
	"golang.org/x/tools/go/ssa/ssautil"
)

const modPath = "github.com/ipld/go-ipld-prime"

type options struct {
	prop, tier, only string
	repo, verif      string
	workers          int
	seed             int64
	verbose          bool
	replayFile       string
	noNative         bool
	paramOverride    string
	timeoutOverride  int
}

func main() {
	if len(os.Args) < 2 {
		fatal("usage: gosx check|replay -prop CNN ...")
	}
	cmd := os.Args[1]
	fs := flag.NewFlagSet(cmd, flag.ExitOnError)
	var o options
	fs.StringVar(&o.prop, "prop", "", "property id")
	fs.StringVar(&o.tier, "tier", "quick", "quick|thorough")
	fs.StringVar(&o.only, "only", "", "run only harnesses whose name contains this")
	fs.StringVar(&o.repo, "repo", "/repo", "")
	fs.StringVar(&o.verif, "verif", "/verif", "")
	fs.IntVar(&o.workers, "workers", 16, "")
	fs.Int64Var(&o.seed, "seed", 0, "")
	fs.BoolVar(&o.verbose, "v", false, "")
	fs.StringVar(&o.replayFile, "file", "", "counterexample file (replay)")
	fs.BoolVar(&o.noNative, "nonative", false, "skip native build/replay (debugging only; never reports VIOLATION)")
	fs.StringVar(&o.paramOverride, "p", "", "override params: N=3,K=2 (debugging)")
	fs.IntVar(&o.timeoutOverride, "timeout", 0, "override per-harness timeout seconds (debugging)")
	fs.Parse(os.Args[2:])
	if s := os.Getenv("VERIF_SEED"); s != "" && o.seed == 0 {
		o.seed, _ = strconv.ParseInt(s, 10, 64)
	}
	if t := os.Getenv("VERIF_TIER"); t != "" && cmd == "check" && !flagSet(fs, "tier") {
		o.tier = t
	}
	if pf := os.Getenv("GOSX_PROF"); pf != "" {
		f, _ := os.Create(pf)
		pprof.StartCPUProfile(f)
		code := runCheck(&o)
		pprof.StopCPUProfile()
		f.Close()
		os.Exit(code)
	}
	switch cmd {
	case "check":
		os.Exit(runCheck(&o))
	case "replay":
		os.Exit(runReplay(&o))
	default:
		fatal("unknown command %s", cmd)
	}
}

func flagSet(fs *flag.FlagSet, name string) bool {
	set := false
	fs.Visit(func(f *flag.Flag) {
		if f.Name == name {
			set = true
		}
	})
	return set
}

type loaded struct {
	prog  *ssa.Program
	pkgs  map[string]*ssa.Package // by pkg dir relative to repo
	ov    *Overlay
	build string
	ovJS  string
	durS  float64
}

// prepare builds the overlay and the generated replay tests, and loads + SSA-builds the harness
// packages together with the working tree of /repo.
func prepare(o *options, pp *PlanProperty, hs []PlanHarness, load bool) *loaded {
	t0 := time.Now()
	build := filepath.Join(o.verif, "build", o.prop)
	os.RemoveAll(build)
	os.MkdirAll(build, 0o755)
	ov := buildOverlay(filepath.Join(o.verif, "harness"), o.repo)
	byPkg := map[string][]string{}
	for _, h := range pp.Harnesses {
		found := false
		for _, f := range byPkg[h.Pkg] {
			if f == h.Fn {
				found = true
			}
		}
		if !found {
			byPkg[h.Pkg] = append(byPkg[h.Pkg], h.Fn)
		}
	}
	for pkgDir, fns := range byPkg {
		name := ov.PkgName[pkgDir]
		if name == "" {
			fatal("no harness sources for package %s", pkgDir)
		}
		genReplayTest(build, o.repo, pkgDir, name, fns, ov)
	}
	for _, rw := range pp.Rewrites {
		src, err := os.ReadFile(filepath.Join(o.repo, rw.File))
		if err != nil {
			fatal("rewrite: %v", err)
		}
		txt := string(src)
		for _, s := range rw.Subst {
			if !strings.Contains(txt, s[0]) {
				fmt.Printf("gosx: note: rewrite of %s: %q does not occur in the current source\n", rw.File, s[0])
			}
			txt = strings.ReplaceAll(txt, s[0], s[1])
		}
		gen := filepath.Join(build, "gen", "rewritten_"+strings.ReplaceAll(rw.File, "/", "_"))
		os.MkdirAll(filepath.Dir(gen), 0o755)
		if err := os.WriteFile(gen, []byte(txt), 0o644); err != nil {
			fatal("%v", err)
		}
		ov.Files[filepath.Join(o.repo, rw.File)] = gen
	}
	ovJS := filepath.Join(build, "overlay.json")
	writeOverlayJSON(ovJS, ov)
	if pg := pp.Pregen; pg != nil {
		outDir := filepath.Join(build, "gen", "pregen")
		os.MkdirAll(outDir, 0o755)
		cmd := exec.Command("go", "run", "-overlay", ovJS, "./"+pg.Cmd, outDir)
		cmd.Dir = o.repo
		cmd.Env = goEnv()
		if out, err := cmd.CombinedOutput(); err != nil {
			pregenFailure(o, build, "the generator failed: "+err.Error()+"\n"+string(out))
		}
		files, _ := filepath.Glob(filepath.Join(outDir, "*.go"))
		for _, f := range files {
			ov.Files[filepath.Join(o.repo, pg.Out, filepath.Base(f))] = f
		}
		writeOverlayJSON(ovJS, ov)
		cmd = exec.Command("go", "build", "-overlay", ovJS, "./"+pg.Out)
		cmd.Dir = o.repo
		cmd.Env = goEnv()
		if out, err := cmd.CombinedOutput(); err != nil {
			pregenFailure(o, build, "the generated package does not compile: "+err.Error()+"\n"+string(out))
		}
	}
	ld := &loaded{ov: ov, build: build, ovJS: ovJS, pkgs: map[string]*ssa.Package{}}
	if !load {
		return ld
	}
	ovc := map[string][]byte{}
	for v, r := range ov.Files {
		if strings.HasSuffix(v, "_test.go") {
			continue
		}
		b, err := os.ReadFile(r)
		if err != nil {
			fatal("%v", err)
		}
		ovc[v] = b
	}
	var pats []string
	seen := map[string]bool{}
	for _, h := range hs {
		if !seen[h.Pkg] {
			seen[h.Pkg] = true
			pats = append(pats, "./"+h.Pkg)
		}
	}
	cfg := &packages.Config{Mode: packages.LoadAllSyntax, Dir: o.repo, Overlay: ovc, Env: goEnv(), BuildFlags: []string{"-tags=gosx"}}
	pkgs, err := packages.Load(cfg, pats...)
	if err != nil {
		fmt.Fprintf(os.Stderr, "gosx: cannot load the working tree: %v\n", err)
		os.Exit(2)
	}
	if packages.PrintErrors(pkgs) > 0 {
		fmt.Fprintln(os.Stderr, "gosx: the working tree (with the harness overlay) does not type-check; nothing can be encoded")
		os.Exit(2)
	}
	prog, spkgs := ssautil.AllPackages(pkgs, ssa.InstantiateGenerics)
	prog.Build()
	for _, sp := range spkgs {
		if sp == nil {
			continue
		}
		p := sp.Pkg.Path()
		if strings.HasPrefix(p, modPath+"/") {
			ld.pkgs[strings.TrimPrefix(p, modPath+"/")] = sp
		}
	}
	ld.prog = prog
	ld.durS = time.Since(t0).Seconds()
	return ld
}

// pregenFailure: the code generator of the working tree failed, or its output does not compile:
// for C13 that is the violation itself (the replay is the compiler output).
func pregenFailure(o *options, build, msg string) {
	outDir := filepath.Join(o.verif, "out", o.prop)
	os.MkdirAll(outDir, 0o755)
	path := filepath.Join(outDir, "generated_code_failure.txt")
	os.WriteFile(path, []byte(msg), 0o644)
	fmt.Println(firstLine(msg))
	if o.prop == "C13" {
		fmt.Printf("VIOLATION property=%s replay=%s\n", o.prop, path)
		os.Exit(1)
	}
	fmt.Fprintln(os.Stderr, "gosx: "+msg)
	os.Exit(2)
}

type harnessResult struct {
	h   PlanHarness
	run *HarnessRun
	e   *Explorer

	replayed      int
	reproduced    []*Candidate
	notReproduced []*Candidate
	validated     int
	valMismatch   []string
	vacuous       []string
	clean         bool
}

func runCheck(o *options) int {
	t0 := time.Now()
	plan := loadPlan(filepath.Join(o.verif, "harness"))
	pp := plan[o.prop]
	if pp == nil {
		fatal("no plan for property %s", o.prop)
	}
	known := map[string]bool{}
	knownWhat := map[string]string{}
	for _, k := range loadKnown(filepath.Join(o.verif, "known_findings.json")) {
		if k.Property == o.prop && k.Status == "known" {
			known[k.ID] = true
			knownWhat[k.ID] = k.What
		}
	}
	var hs []PlanHarness
	for _, h := range pp.Harnesses {
		if o.only != "" && !strings.Contains(h.Name, o.only) {
			continue
		}
		if o.tier == "quick" && h.Quick == nil {
			continue
		}
		if o.tier == "thorough" && h.QuickOnly {
			continue
		}
		hs = append(hs, h)
	}
	if len(hs) == 0 {
		fatal("no harness selected for %s/%s", o.prop, o.tier)
	}
	ld := prepare(o, pp, hs, true)
	fmt.Printf("gosx: %s %s: encoding regenerated from %s in %.1fs (%d harnesses)\n", o.prop, o.tier, o.repo, ld.durS, len(hs))
	// native builds run while the exploration runs
	builds := map[string]*nativeBuild{}
	if !o.noNative {
		for _, h := range hs {
			if builds[h.Pkg] == nil {
				builds[h.Pkg] = startNativeBuild(o.repo, ld.build, ld.ovJS, h.Pkg, pp.Race)
			}
		}
	}
	outDir := filepath.Join(o.verif, "out", o.prop)
	os.MkdirAll(outDir, 0o755)
	var results []*harnessResult
	for _, h := range hs {
		sp := ld.pkgs[h.Pkg]
		if sp == nil {
			fatal("package %s not loaded", h.Pkg)
		}
		fn := sp.Func(h.Fn)
		if fn == nil {
			fatal("harness function %s.%s not found", h.Pkg, h.Fn)
		}
		params := h.Quick
		timeout := h.TimeoutS
		if o.tier == "thorough" {
			if h.Thorough != nil {
				params = h.Thorough
			}
			if h.TimeoutTh > 0 {
				timeout = h.TimeoutTh
			}
		}
		if timeout == 0 {
			timeout = 600
		}
		if o.timeoutOverride > 0 {
			timeout = o.timeoutOverride
		}
		params = copyParams(params)
		if o.paramOverride != "" {
			for _, kv := range strings.Split(o.paramOverride, ",") {
				p := strings.SplitN(kv, "=", 2)
				v, _ := strconv.ParseInt(p[1], 10, 64)
				params[p[0]] = v
			}
		}
		run := &HarnessRun{Name: h.Name, Pkg: h.Pkg, FnName: h.Fn, Fn: fn, Params: params, MaxLoop: def(h.MaxLoop, 256), MaxDepth: def(h.MaxDepth, 300),
			MaxPaths: h.MaxPaths, TimeoutS: timeout, SolverMS: def(h.SolverMS, 20000), Validate: h.Validate, Reach: h.Reach, Models: h.Models, Known: known, NeedPanic: h.Twin}
		if o.tier == "thorough" {
			run.Validate *= 4
		}
		e := newExplorer(ld.prog, run, o.seed)
		e.explore(o.workers)
		hr := &harnessResult{h: h, run: run, e: e}
		results = append(results, hr)
		printHarnessSummary(hr, o.verbose)
	}
	// native phase
	violations := 0
	var violationLines []string
	for _, hr := range results {
		e := hr.e
		nb := builds[hr.h.Pkg]
		if hr.h.Twin {
			continue
		}
		if nb == nil {
			continue
		}
		var cases []BatchCase
		knownIDs := keys(known)
		for i, c := range e.cands {
			cases = append(cases, BatchCase{ID: fmt.Sprintf("cex%d", i), Harness: hr.h.Fn, Vals: withParams(c.Model, hr.run.Params), Known: knownIDs})
		}
		for i, s := range e.samples {
			cases = append(cases, BatchCase{ID: fmt.Sprintf("val%d", i), Harness: hr.h.Fn, Vals: withParams(s.Model, hr.run.Params), Known: knownIDs})
		}
		for id, kh := range e.known {
			cases = append(cases, BatchCase{ID: "kf:" + id, Harness: hr.h.Fn, Vals: withParams(kh.Model, hr.run.Params), Known: knownIDs})
		}
		if len(cases) == 0 {
			continue
		}
		res, err := nb.runBatch(ld.build, cases, 20*time.Second)
		if err != nil {
			fmt.Printf("NATIVE-BUILD-FAILED %s: %v\n", hr.h.Name, err)
			hr.valMismatch = append(hr.valMismatch, "native build failed: "+firstLine(err.Error()))
			continue
		}
		for i, c := range e.cands {
			r := res[fmt.Sprintf("cex%d", i)]
			hr.replayed++
			if r != nil && !r.AssumeFailed && len(r.KnownHit) == 0 && nativeConfirms(c, r) {
				hr.reproduced = append(hr.reproduced, c)
				violations++
				path := filepath.Join(outDir, fmt.Sprintf("cex_%s_%d.json", hr.h.Name, len(hr.reproduced)))
				writeCex(path, o, hr, c, r)
				violationLines = append(violationLines, fmt.Sprintf("VIOLATION property=%s replay=%s", o.prop, path))
				fmt.Printf("  counterexample reproduced natively: [%s] %s %s: %s\n", hr.h.Name, c.Kind, c.Label, describeModel(c.Model))
			} else {
				hr.notReproduced = append(hr.notReproduced, c)
				why := "no native failure"
				if r == nil {
					why = "no native result"
				} else if r.AssumeFailed {
					why = "native run violates an assumption"
				} else if len(r.KnownHit) > 0 {
					why = "native run is the known finding " + strings.Join(r.KnownHit, ",")
				}
				fmt.Printf("  INCONCLUSIVE counterexample not reproduced natively (%s): [%s] %s %s: %s\n", why, hr.h.Name, c.Kind, c.Label, describeModel(c.Model))
				path := filepath.Join(outDir, fmt.Sprintf("unreproduced_%s_%d.json", hr.h.Name, len(hr.notReproduced)))
				writeCex(path, o, hr, c, r)
			}
		}
		for i, s := range e.samples {
			r := res[fmt.Sprintf("val%d", i)]
			if r == nil {
				hr.valMismatch = append(hr.valMismatch, "no native result for sampled path")
				continue
			}
			if d := diffSample(s, r); d != "" {
				hr.valMismatch = append(hr.valMismatch, d+" model: "+describeModel(s.Model))
			} else {
				hr.validated++
			}
		}
		for id := range e.known {
			r := res["kf:"+id]
			confirmed := r != nil && contains(r.KnownHit, id)
			fmt.Printf("KNOWN-FINDING: property=%s %s %s (harness %s, %d paths; native confirmation: %v; e.g. %s)\n", o.prop, id, knownWhat[id], hr.h.Name, e.known[id].Count, confirmed, describeModel(e.known[id].Model))
		}
	}
	// verdicts on the quality of the run
	allClean := true
	for _, hr := range results {
		e := hr.e
		if hr.h.Twin {
			if e.ends["violation"]+e.ends["panic"] == 0 {
				hr.vacuous = append(hr.vacuous, "twin harness did not end violated")
			}
		} else {
			for _, r := range hr.run.Reach {
				if e.reach[r] == 0 {
					hr.vacuous = append(hr.vacuous, "marker "+r+" reached by no feasible path")
				}
			}
		}
		hr.clean = e.abort == "" && e.ends["inconclusive"] == 0 && e.ends["unwind"] == 0 && e.undischarged == 0 && e.uncertain == 0 && len(hr.vacuous) == 0 &&
			len(hr.notReproduced) == 0 && len(hr.valMismatch) == 0 && len(e.engineErrors) == 0
		if !hr.clean {
			allClean = false
			fmt.Printf("INCONCLUSIVE harness=%s abort=%q inconclusive=%d unwind=%d undischarged=%d uncertain=%d vacuous=%v unreproduced=%d validation_mismatch=%d engine_errors=%d\n",
				hr.h.Name, e.abort, e.ends["inconclusive"], e.ends["unwind"], e.undischarged, e.uncertain, hr.vacuous, len(hr.notReproduced), len(hr.valMismatch), len(e.engineErrors))
			for _, m := range hr.valMismatch {
				fmt.Printf("    validation: %s\n", m)
			}
			for _, m := range e.engineErrors {
				fmt.Printf("    engine error: %s\n", m)
			}
		}
	}
	writeEvidence(o, pp, ld, results, violations, time.Since(t0), allClean)
	for _, l := range violationLines {
		fmt.Println(l)
	}
	fmt.Printf("gosx: %s %s done in %.1fs: violations=%d clean=%v\n", o.prop, o.tier, time.Since(t0).Seconds(), violations, allClean)
	if violations > 0 {
		return 1
	}
	return 0
}

func def(v, d int) int {
	if v == 0 {
		return d
	}
	return v
}

func copyParams(p map[string]int64) map[string]int64 {
	n := map[string]int64{}
	for k, v := range p {
		n[k] = v
	}
	return n
}

func keys(m map[string]bool) []string {
	var ks []string
	for k := range m {
		ks = append(ks, k)
	}
	sort.Strings(ks)
	return ks
}

func contains(xs []string, x string) bool {
	for _, y := range xs {
		if y == x {
			return true
		}
	}
	return false
}

func withParams(model map[string]uint64, params map[string]int64) map[string]uint64 {
	n := make(map[string]uint64, len(model)+len(params))
	for k, v := range model {
		n[k] = v
	}
	for k, v := range params {
		n["param:"+k] = uint64(v)
	}
	return n
}

// nativeConfirms: did the native run of the real code fail the way the solver said?
func nativeConfirms(c *Candidate, r *BatchResult) bool {
	switch c.Kind {
	case "assert":
		return contains(r.Failures, c.Label)
	case "panic":
		return r.Panic != "" && !r.TimedOut
	case "write":
		// the native replay runs the operation in two goroutines under the race detector
		return strings.Contains(r.Panic, "DATA RACE")
	}
	return false
}

func diffSample(s *PathSample, r *BatchResult) string {
	if r.AssumeFailed {
		return "native run of a feasible path's model violates an assumption"
	}
	if r.Panic != "" {
		return "native run of a completed path's model panics: " + firstLine(r.Panic)
	}
	if len(r.Failures) > 0 {
		return "native run of a passing path's model fails: " + strings.Join(r.Failures, "; ")
	}
	if strings.Join(s.Reached, ",") != strings.Join(r.Reached, ",") {
		return fmt.Sprintf("reach markers differ: engine %v native %v", s.Reached, r.Reached)
	}
	if len(s.Obs) != len(r.Obs) {
		return fmt.Sprintf("observation logs differ in length: engine %d native %d", len(s.Obs), len(r.Obs))
	}
	for i := range s.Obs {
		if s.Obs[i] != r.Obs[i] {
			return fmt.Sprintf("observation %d differs: engine %s native %s", i, s.Obs[i], r.Obs[i])
		}
	}
	return ""
}

func describeModel(m map[string]uint64) string {
	// group name_i byte variables into hex strings
	groups := map[string]map[int]uint64{}
	var scalars []string
	for k, v := range m {
		if i := strings.LastIndexByte(k, '_'); i > 0 {
			if n, err := strconv.Atoi(k[i+1:]); err == nil {
				if groups[k[:i]] == nil {
					groups[k[:i]] = map[int]uint64{}
				}
				groups[k[:i]][n] = v
				continue
			}
		}
		scalars = append(scalars, fmt.Sprintf("%s=%#x", k, v))
	}
	sort.Strings(scalars)
	var gs []string
	for g, bs := range groups {
		n := 0
		for i := range bs {
			if i+1 > n {
				n = i + 1
			}
		}
		b := make([]byte, n)
		for i, v := range bs {
			b[i] = byte(v)
		}
		gs = append(gs, fmt.Sprintf("%s=[%s]", g, hex.EncodeToString(b)))
	}
	sort.Strings(gs)
	s := strings.Join(append(gs, scalars...), " ")
	if len(s) > 600 {
		s = s[:600] + "…"
	}
	return s
}

type cexFile struct {
	Property string            `json:"property"`
	Tier     string            `json:"tier"`
	Harness  string            `json:"harness"`
	Pkg      string            `json:"pkg"`
	Fn       string            `json:"fn"`
	Kind     string            `json:"kind"`
	Label    string            `json:"label"`
	Vals     map[string]uint64 `json:"vals"`
	Readable string            `json:"readable"`
	Native   *BatchResult      `json:"native_result"`
}

func writeCex(path string, o *options, hr *harnessResult, c *Candidate, r *BatchResult) {
	cf := cexFile{Property: o.prop, Tier: o.tier, Harness: hr.h.Name, Pkg: hr.h.Pkg, Fn: hr.h.Fn, Kind: c.Kind, Label: c.Label,
		Vals: withParams(c.Model, hr.run.Params), Readable: describeModel(c.Model), Native: r}
	b, _ := json.MarshalIndent(cf, "", " ")
	os.WriteFile(path, b, 0o644)
}

func printHarnessSummary(hr *harnessResult, verbose bool) {
	e := hr.e
	var ends []string
	for k, v := range e.ends {
		ends = append(ends, fmt.Sprintf("%s=%d", k, v))
	}
	sort.Strings(ends)
	fmt.Printf("  [%s] paths=%d (%s) obligations=%d discharged=%d queries=%d (sat %d unsat %d unknown %d) solver=%.1fs wall=%.1fs funcs=%d cands=%d%s\n",
		hr.h.Name, e.paths, strings.Join(ends, " "), e.obligations, e.discharged, e.queries, e.sat, e.unsat, e.unknown, e.solverDur.Seconds(), e.wall.Seconds(), len(e.funcs), len(e.cands),
		map[bool]string{true: " ABORTED: " + e.abort, false: ""}[e.abort != ""])
	var ms []string
	for k := range e.msgs {
		ms = append(ms, k)
	}
	sort.Strings(ms)
	for i, k := range ms {
		if i >= 12 && !verbose {
			fmt.Printf("      … %d more kinds\n", len(ms)-i)
			break
		}
		fmt.Printf("      [%d] %s\n", e.msgs[k], k)
	}
	if verbose {
		var rs []string
		for k, v := range e.reach {
			rs = append(rs, fmt.Sprintf("%s=%d", k, v))
		}
		sort.Strings(rs)
		fmt.Printf("      reach: %s\n", strings.Join(rs, " "))
		for a := range e.initAborted {
			fmt.Printf("      init aborted: %s\n", a)
		}
	}
}

func fileHash(path string) string {
	b, err := os.ReadFile(path)
	if err != nil {
		return ""
	}
	h := sha256.Sum256(b)
	return hex.EncodeToString(h[:6])
}

func runReplay(o *options) int {
	b, err := os.ReadFile(o.replayFile)
	if err != nil {
		fatal("%v", err)
	}
	var cf cexFile
	if err := json.Unmarshal(b, &cf); err != nil {
		fatal("%v", err)
	}
	o.prop = cf.Property
	plan := loadPlan(filepath.Join(o.verif, "harness"))
	pp := plan[o.prop]
	if pp == nil {
		fatal("no plan for %s", o.prop)
	}
	ld := prepare(o, pp, nil, false)
	nb := startNativeBuild(o.repo, ld.build, ld.ovJS, cf.Pkg, pp.Race)
	res, err := nb.runBatch(ld.build, []BatchCase{{ID: "replay", Harness: cf.Fn, Vals: cf.Vals}}, 60*time.Second)
	if err != nil {
		fatal("%v", err)
	}
	r := res["replay"]
	out, _ := json.MarshalIndent(r, "", " ")
	fmt.Printf("replay of %s (%s %s: %s)\ninputs: %s\nnative result: %s\n", o.replayFile, cf.Harness, cf.Kind, cf.Label, cf.Readable, out)
	if r != nil && nativeConfirms(&Candidate{Kind: cf.Kind, Label: cf.Label}, r) {
		fmt.Printf("VIOLATION property=%s replay=%s\n", cf.Property, o.replayFile)
		return 1
	}
	fmt.Println("not reproduced on the current tree")
	return 0
}
