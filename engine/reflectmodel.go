package main

import (
	"fmt"
	"go/types"
)

type rval struct {
	t    types.Type
	loc  Ptr
	addr bool
}

var rtypeIfaceT types.Type // dynamic type tag for reflect.Type values

func (m *Machine) rtypePtr() types.Type {
	if rtypeIfaceT == nil {
		rp := m.prog.ImportedPackage("reflect")
		rtypeIfaceT = types.NewPointer(rp.Type("rtype").Type())
	}
	return rtypeIfaceT
}

func (m *Machine) mkType(t types.Type) value {
	if t == nil {
		return Iface{}
	}
	return Iface{t: m.rtypePtr(), v: &Native{kind: "rtype", data: t}}
}
func typeOfVal(v value) types.Type {
	i := v.(Iface)
	if i.t == nil {
		return nil
	}
	return i.v.(*Native).data.(types.Type)
}

func (m *Machine) mkValue(r *rval) value {
	return Struct{Ptr{}, &Native{kind: "rv", data: r}, Scalar{c: 1}}
}
func (m *Machine) zeroRValue() value { return Struct{Ptr{}, Ptr{}, Scalar{}} }
func (m *Machine) rv(v value) *rval {
	s := v.(Struct)
	n, ok := s[1].(*Native)
	if !ok {
		m.goPanicStr("reflect: call of method on zero Value")
	}
	return n.data.(*rval)
}
func (m *Machine) cellOf(t types.Type, v value) *rval {
	return &rval{t: t, loc: Ptr{obj: m.newObj(copyVal(v))}}
}

func kindOf(t types.Type) uint64 {
	switch u := t.Underlying().(type) {
	case *types.Basic:
		switch u.Kind() {
		case types.Bool:
			return 1
		case types.Int:
			return 2
		case types.Int8:
			return 3
		case types.Int16:
			return 4
		case types.Int32:
			return 5
		case types.Int64:
			return 6
		case types.Uint:
			return 7
		case types.Uint8:
			return 8
		case types.Uint16:
			return 9
		case types.Uint32:
			return 10
		case types.Uint64:
			return 11
		case types.Uintptr:
			return 12
		case types.Float32:
			return 13
		case types.Float64:
			return 14
		case types.String:
			return 24
		case types.UnsafePointer:
			return 26
		}
	case *types.Array:
		return 17
	case *types.Chan:
		return 18
	case *types.Signature:
		return 19
	case *types.Interface:
		return 20
	case *types.Map:
		return 21
	case *types.Pointer:
		return 22
	case *types.Slice:
		return 23
	case *types.Struct:
		return 25
	}
	return 0
}

func pathPlus(p Ptr, i int) Ptr {
	np := make([]int, len(p.path)+1)
	copy(np, p.path)
	np[len(p.path)] = i
	return Ptr{obj: p.obj, path: np}
}

func (m *Machine) structFieldVal(st *types.Struct, i int) value {
	f := st.Field(i)
	pk := ""
	if !f.Exported() && f.Pkg() != nil {
		pk = f.Pkg().Path()
	}
	idx := Slice{arr: m.newObj(Array{conc(64, uint64(i))}), len: conc(64, 1), cap: conc(64, 1)}
	return Struct{strOf(f.Name()), strOf(pk), m.mkType(f.Type()), strOf(st.Tag(i)), Scalar{}, idx, boolS(f.Embedded())}
}

func (m *Machine) rtypeMethod(t types.Type, name string, args []value) value {
	switch name {
	case "Kind":
		return conc(64, kindOf(t))
	case "Elem":
		switch u := t.Underlying().(type) {
		case *types.Pointer:
			return m.mkType(u.Elem())
		case *types.Slice:
			return m.mkType(u.Elem())
		case *types.Array:
			return m.mkType(u.Elem())
		case *types.Map:
			return m.mkType(u.Elem())
		case *types.Chan:
			return m.mkType(u.Elem())
		}
		m.goPanicStr("reflect: Elem of invalid type " + t.String())
	case "Key":
		return m.mkType(t.Underlying().(*types.Map).Key())
	case "NumField":
		return conc(64, uint64(t.Underlying().(*types.Struct).NumFields()))
	case "Field":
		return m.structFieldVal(t.Underlying().(*types.Struct), m.concLen(args[0].(Scalar), "Type.Field"))
	case "FieldByName":
		st := t.Underlying().(*types.Struct)
		for i := 0; i < st.NumFields(); i++ {
			if m.nameIs(args[0].(*String), st.Field(i).Name()) {
				return Tuple{m.structFieldVal(st, i), boolS(true)}
			}
		}
		return Tuple{Struct{strOf(""), strOf(""), Iface{}, strOf(""), Scalar{}, Slice{}, boolS(false)}, boolS(false)}
	case "Name":
		switch n := t.(type) {
		case *types.Named:
			return strOf(n.Obj().Name())
		case *types.Basic:
			return strOf(n.Name())
		case *types.Alias:
			return m.rtypeMethod(types.Unalias(n), name, args)
		}
		return strOf("")
	case "PkgPath":
		if n, ok := t.(*types.Named); ok && n.Obj().Pkg() != nil {
			return strOf(n.Obj().Pkg().Path())
		}
		return strOf("")
	case "String":
		return strOf(types.TypeString(t, func(p *types.Package) string { return p.Name() }))
	case "AssignableTo":
		return boolS(types.AssignableTo(t, typeOfVal(args[0])))
	case "ConvertibleTo":
		return boolS(types.ConvertibleTo(t, typeOfVal(args[0])))
	case "Implements":
		return boolS(types.Implements(t, typeOfVal(args[0]).Underlying().(*types.Interface)))
	case "Comparable":
		return boolS(types.Comparable(t))
	case "Len":
		return conc(64, uint64(t.Underlying().(*types.Array).Len()))
	case "NumMethod":
		return conc(64, uint64(m.prog.MethodSets.MethodSet(t).Len()))
	case "Bits":
		if b, ok := t.Underlying().(*types.Basic); ok && b.Info()&(types.IsInteger|types.IsFloat|types.IsComplex) != 0 {
			if b.Info()&types.IsComplex != 0 {
				return conc(64, uint64(2*widthOf(types.Typ[types.Float64])))
			}
			return conc(64, uint64(widthOf(b)))
		}
		m.goPanicStr("reflect: Bits of non-arithmetic Type " + t.String())
	case "Size":
		return conc(64, uint64(sizeOf(t)))
	}
	m.stop("inconclusive", "reflect.Type.%s not modelled", name)
	return nil
}

func (m *Machine) sliceElemType(t types.Type) types.Type { return t.Underlying().(*types.Slice).Elem() }

func init() {
	R := func(name string, f intrinsic) { reflectIntrinsics[name] = f }
	R("reflect.TypeOf", func(m *Machine, c *frame, a []value) value {
		i := a[0].(Iface)
		if i.t == nil {
			return Iface{}
		}
		return m.mkType(i.t)
	})
	R("reflect.ValueOf", func(m *Machine, c *frame, a []value) value {
		i := a[0].(Iface)
		if i.t == nil {
			return m.zeroRValue()
		}
		return m.mkValue(m.cellOf(i.t, i.v))
	})
	R("reflect.New", func(m *Machine, c *frame, a []value) value {
		t := typeOfVal(a[0])
		cell := m.newObj(zero(t))
		return m.mkValue(m.cellOf(types.NewPointer(t), Ptr{obj: cell}))
	})
	R("reflect.Zero", func(m *Machine, c *frame, a []value) value {
		t := typeOfVal(a[0])
		return m.mkValue(m.cellOf(t, zero(t)))
	})
	ptrTo := func(m *Machine, c *frame, a []value) value { return m.mkType(types.NewPointer(typeOfVal(a[0]))) }
	R("reflect.PointerTo", ptrTo)
	R("reflect.PtrTo", ptrTo)
	R("reflect.SliceOf", func(m *Machine, c *frame, a []value) value { return m.mkType(types.NewSlice(typeOfVal(a[0]))) })
	R("reflect.MapOf", func(m *Machine, c *frame, a []value) value {
		return m.mkType(types.NewMap(typeOfVal(a[0]), typeOfVal(a[1])))
	})
	R("reflect.StructOf", func(m *Machine, c *frame, a []value) value {
		sl := a[0].(Slice)
		n := m.concLen(sl.len, "StructOf")
		var fs []*types.Var
		var tags []string
		for i := 0; i < n; i++ {
			sf := m.sliceElem(sl, i).(Struct)
			name, _ := sf[0].(*String).concrete()
			fs = append(fs, types.NewField(0, nil, name, typeOfVal(sf[2]), false))
			tags = append(tags, "")
		}
		return m.mkType(types.NewStruct(fs, tags))
	})
	R("reflect.MakeMap", func(m *Machine, c *frame, a []value) value {
		t := typeOfVal(a[0])
		m.objSeq++
		return m.mkValue(m.cellOf(t, &Map{id: m.objSeq}))
	})
	R("reflect.MakeMapWithSize", func(m *Machine, c *frame, a []value) value { // the size is a capacity hint only
		t := typeOfVal(a[0])
		m.objSeq++
		return m.mkValue(m.cellOf(t, &Map{id: m.objSeq}))
	})
	R("reflect.MakeSlice", func(m *Machine, c *frame, a []value) value {
		t := typeOfVal(a[0])
		return m.mkValue(m.cellOf(t, m.makeSlice(t, a[1].(Scalar), a[2].(Scalar), types.Typ[types.Int])))
	})
	R("reflect.Append", func(m *Machine, c *frame, a []value) value {
		r := m.rv(a[0])
		s := m.load(r.loc).(Slice)
		xs := a[1].(Slice)
		n := m.concLen(xs.len, "reflect.Append n")
		et := m.sliceElemType(r.t)
		var add []value
		for i := 0; i < n; i++ {
			x := m.rv(m.sliceElem(xs, i))
			add = append(add, m.assignTo(et, x))
		}
		ns := m.appendVals(s, add, et)
		return m.mkValue(m.cellOf(r.t, ns))
	})
	V := func(name string, f func(m *Machine, r *rval, a []value) value) {
		reflectIntrinsics["(reflect.Value)."+name] = func(m *Machine, c *frame, a []value) value {
			if s := a[0].(Struct); s[2].(Scalar).c == 0 {
				switch name {
				case "IsValid":
					return boolS(false)
				case "Kind":
					return conc(64, 0)
				}
				m.goPanicStr("reflect: call of reflect.Value." + name + " on zero Value")
			}
			return f(m, m.rv(a[0]), a[1:])
		}
	}
	V("IsValid", func(m *Machine, r *rval, a []value) value { return boolS(true) })
	V("Kind", func(m *Machine, r *rval, a []value) value { return conc(64, kindOf(r.t)) })
	V("Type", func(m *Machine, r *rval, a []value) value { return m.mkType(r.t) })
	V("CanAddr", func(m *Machine, r *rval, a []value) value { return boolS(r.addr) })
	V("CanSet", func(m *Machine, r *rval, a []value) value { return boolS(r.addr) })
	V("CanInterface", func(m *Machine, r *rval, a []value) value { return boolS(true) })
	V("Elem", func(m *Machine, r *rval, a []value) value {
		switch u := r.t.Underlying().(type) {
		case *types.Pointer:
			p := m.load(r.loc).(Ptr)
			if p.obj == nil {
				return m.zeroRValue()
			}
			return m.mkValue(&rval{t: u.Elem(), loc: p, addr: true})
		case *types.Interface:
			i := m.load(r.loc).(Iface)
			if i.t == nil {
				return m.zeroRValue()
			}
			return m.mkValue(m.cellOf(i.t, i.v))
		}
		m.goPanicStr("reflect: call of reflect.Value.Elem on " + r.t.String())
		return nil
	})
	V("NumField", func(m *Machine, r *rval, a []value) value {
		st, ok := r.t.Underlying().(*types.Struct)
		if !ok {
			m.goPanicStr("reflect: call of reflect.Value.NumField on " + kindName(r.t) + " Value")
		}
		return conc(64, uint64(st.NumFields()))
	})
	V("Field", func(m *Machine, r *rval, a []value) value {
		i := m.concLen(a[0].(Scalar), "Value.Field")
		st, ok := r.t.Underlying().(*types.Struct)
		if !ok {
			m.goPanicStr("reflect: call of reflect.Value.Field on " + kindName(r.t) + " Value")
		}
		return m.mkValue(&rval{t: st.Field(i).Type(), loc: pathPlus(r.loc, i), addr: r.addr})
	})
	V("FieldByIndex", func(m *Machine, r *rval, a []value) value {
		sl := a[0].(Slice)
		n := m.concLen(sl.len, "FieldByIndex")
		cur := r
		for j := 0; j < n; j++ {
			i := m.concLen(m.sliceElem(sl, j).(Scalar), "FieldByIndex i")
			st := cur.t.Underlying().(*types.Struct)
			cur = &rval{t: st.Field(i).Type(), loc: pathPlus(cur.loc, i), addr: cur.addr}
		}
		return m.mkValue(cur)
	})
	V("FieldByName", func(m *Machine, r *rval, a []value) value {
		st := r.t.Underlying().(*types.Struct)
		for i := 0; i < st.NumFields(); i++ {
			if m.nameIs(a[0].(*String), st.Field(i).Name()) {
				return m.mkValue(&rval{t: st.Field(i).Type(), loc: pathPlus(r.loc, i), addr: r.addr})
			}
		}
		return m.zeroRValue()
	})
	V("Len", func(m *Machine, r *rval, a []value) value {
		return m.callBuiltin(nil, "len", []value{m.load(r.loc)}, nil)
	})
	V("Index", func(m *Machine, r *rval, a []value) value {
		i := a[0].(Scalar)
		switch u := r.t.Underlying().(type) {
		case *types.Slice:
			s := m.load(r.loc).(Slice)
			m.inBounds(i, s.len, true, "reflect: slice index")
			k := m.concLen(i, "Value.Index")
			return m.mkValue(&rval{t: u.Elem(), loc: Ptr{obj: s.arr, path: []int{s.off + k}}, addr: true})
		case *types.Array:
			k := m.concLen(i, "Value.Index")
			return m.mkValue(&rval{t: u.Elem(), loc: pathPlus(r.loc, k), addr: r.addr})
		}
		m.stop("inconclusive", "Value.Index on %v", r.t)
		return nil
	})
	V("IsNil", func(m *Machine, r *rval, a []value) value {
		switch x := m.load(r.loc).(type) {
		case Ptr:
			return boolS(x.obj == nil)
		case Slice:
			return boolS(x.arr == nil)
		case *Map:
			return boolS(x == nil)
		case Iface:
			return boolS(x.t == nil)
		case *Closure:
			return boolS(x == nil)
		}
		m.goPanicStr("reflect: call of reflect.Value.IsNil on " + r.t.String())
		return nil
	})
	V("Interface", func(m *Machine, r *rval, a []value) value {
		v := m.load(r.loc)
		if _, ok := r.t.Underlying().(*types.Interface); ok {
			return v
		}
		return Iface{t: r.t, v: v}
	})
	V("Addr", func(m *Machine, r *rval, a []value) value {
		return m.mkValue(m.cellOf(types.NewPointer(r.t), r.loc))
	})
	V("Set", func(m *Machine, r *rval, a []value) value {
		x := m.rv(a[0])
		m.store(r.loc, m.assignTo(r.t, x))
		return nil
	})
	V("SetInt", func(m *Machine, r *rval, a []value) value {
		m.store(r.loc, m.convert(types.Typ[types.Int64], r.t, a[0]))
		return nil
	})
	V("SetUint", func(m *Machine, r *rval, a []value) value {
		m.store(r.loc, m.convert(types.Typ[types.Uint64], r.t, a[0]))
		return nil
	})
	V("SetFloat", func(m *Machine, r *rval, a []value) value {
		m.store(r.loc, m.convert(types.Typ[types.Float64], r.t, a[0]))
		return nil
	})
	V("OverflowInt", func(m *Machine, r *rval, a []value) value {
		w := widthOf(r.t)
		x := a[0].(Scalar)
		if w >= 64 {
			return boolS(false)
		}
		if x.sym == nil {
			return boolS(sx(x.c&mask(w), w) != int64(x.c))
		}
		return fromTerm(tNot(tEq(tSext(tExtract(w-1, 0, x.sym), 64), x.sym)))
	})
	V("OverflowUint", func(m *Machine, r *rval, a []value) value {
		w := widthOf(r.t)
		x := a[0].(Scalar)
		if w >= 64 {
			return boolS(false)
		}
		if x.sym == nil {
			return boolS(x.c&mask(w) != x.c)
		}
		return fromTerm(tNot(tEq(tZext(tExtract(w-1, 0, x.sym), 64), x.sym)))
	})
	V("SetBool", func(m *Machine, r *rval, a []value) value { m.store(r.loc, a[0]); return nil })
	V("SetString", func(m *Machine, r *rval, a []value) value { m.store(r.loc, a[0]); return nil })
	V("SetBytes", func(m *Machine, r *rval, a []value) value { m.store(r.loc, a[0]); return nil })
	V("Int", func(m *Machine, r *rval, a []value) value {
		return m.convert(r.t, types.Typ[types.Int64], m.load(r.loc))
	})
	V("Uint", func(m *Machine, r *rval, a []value) value {
		return m.convert(r.t, types.Typ[types.Uint64], m.load(r.loc))
	})
	V("Float", func(m *Machine, r *rval, a []value) value {
		return m.convert(r.t, types.Typ[types.Float64], m.load(r.loc))
	})
	V("Bool", func(m *Machine, r *rval, a []value) value { return m.load(r.loc) })
	V("Bytes", func(m *Machine, r *rval, a []value) value { return m.load(r.loc) })
	V("String", func(m *Machine, r *rval, a []value) value {
		if kindOf(r.t) == 24 {
			return m.load(r.loc)
		}
		return strOf("<" + r.t.String() + " Value>")
	})
	V("Convert", func(m *Machine, r *rval, a []value) value {
		t := typeOfVal(a[0])
		return m.mkValue(m.cellOf(t, m.convert(r.t, t, m.load(r.loc))))
	})
	V("MapIndex", func(m *Machine, r *rval, a []value) value {
		mp := m.load(r.loc).(*Map)
		k := m.rv(a[0])
		mt := r.t.Underlying().(*types.Map)
		if mp == nil {
			return m.zeroRValue()
		}
		e := m.mapFind(mp, m.assignTo(mt.Key(), k))
		if e == nil {
			return m.zeroRValue()
		}
		return m.mkValue(m.cellOf(mt.Elem(), e.v))
	})
	V("SetMapIndex", func(m *Machine, r *rval, a []value) value {
		mp := m.load(r.loc).(*Map)
		mt := r.t.Underlying().(*types.Map)
		if mp == nil {
			m.goPanicStr("assignment to entry in nil map")
		}
		k := m.assignTo(mt.Key(), m.rv(a[0]))
		if a[1].(Struct)[2].(Scalar).c == 0 {
			if e := m.mapFind(mp, k); e != nil {
				e.dead = true
			}
			return nil
		}
		m.mapSet(mp, k, m.assignTo(mt.Elem(), m.rv(a[1])))
		return nil
	})
	R("runtime.Caller", func(m *Machine, c *frame, a []value) value {
		return Tuple{Scalar{}, strOf(""), Scalar{}, boolS(false)}
	})
}

var reflectIntrinsics = map[string]intrinsic{}

// assignTo converts the value held by x for assignment to a variable of type t (boxing into interfaces).
func (m *Machine) assignTo(t types.Type, x *rval) value {
	v := m.load(x.loc)
	if _, ok := t.Underlying().(*types.Interface); ok {
		if _, isI := x.t.Underlying().(*types.Interface); !isI {
			return Iface{t: x.t, v: v}
		}
	}
	return v
}

func (m *Machine) appendVals(s Slice, add []value, et types.Type) Slice {
	if len(add) == 0 {
		return s
	}
	ln := m.concLen(s.len, "append dst len")
	need := ln + len(add)
	if s.arr != nil && s.cap.sym == nil && need <= int(s.cap.c) {
		for i, v := range add {
			m.setSliceElem(s, ln+i, v)
		}
		return Slice{arr: s.arr, off: s.off, len: conc(64, uint64(need)), cap: s.cap}
	}
	oldCap := 0
	if s.arr != nil {
		oldCap = m.concLen(s.cap, "append cap")
	}
	newCap := oldCap * 2
	if newCap < need {
		newCap = need
	}
	arr := make(Array, newCap)
	for i := 0; i < ln; i++ {
		arr[i] = copyVal(m.sliceElem(s, i))
	}
	for i, v := range add {
		arr[ln+i] = v
	}
	for i := need; i < newCap; i++ {
		arr[i] = zero(et)
	}
	return Slice{arr: m.newObj(arr), len: conc(64, uint64(need)), cap: conc(64, uint64(newCap))}
}

var _ = fmt.Sprint

// nameIs: does the (possibly symbolic) string s equal the concrete name? Forks when undecided.
func (m *Machine) nameIs(s *String, name string) bool {
	eq := strEq(s, strOf(name))
	if eq.isTrue() {
		return true
	}
	if eq.isFalse() {
		return false
	}
	return m.branch(eq)
}

func kindName(t types.Type) string {
	switch t.Underlying().(type) {
	case *types.Pointer:
		return "ptr"
	case *types.Struct:
		return "struct"
	case *types.Slice:
		return "slice"
	case *types.Map:
		return "map"
	case *types.Interface:
		return "interface"
	}
	return t.Underlying().String()
}
