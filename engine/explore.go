package main

import (
	"fmt"
	"hash/fnv"
	"os"
	"runtime/debug"
	"sort"
	"strings"
	"sync"
	"sync/atomic"
	"time"

	"golang.org/x/tools/go/ssa"
)

// HarnessRun is one harness function explored under one set of bounds.
type HarnessRun struct {
	Name      string // unique within the property
	Pkg       string // import path suffix below the module root, e.g. zzverif/c03
	FnName    string
	Fn        *ssa.Function
	Params    map[string]int64
	MaxLoop   int
	MaxDepth  int
	MaxPaths  int
	TimeoutS  int
	SolverMS  int
	Validate  int               // number of completed paths to re-run natively (translator validation)
	Reach     []string          // labels that must be reached by some feasible path
	Models    map[string]string // function name -> model function (in the harness package) substituted for it
	Known     map[string]bool   // active known-finding ids
	MapOrder  bool
	NeedPanic bool // twin run: the harness must end in a violation (vacuity self-test)
}

// Candidate is a counterexample produced by the solver, to be replayed natively before it is reported.
type Candidate struct {
	Harness string
	Kind    string // assert, panic, write, unwind
	Label   string
	Model   map[string]uint64
	Prefix  []int32
}

type KnownHit struct {
	ID    string
	Model map[string]uint64
	Count int
}

type PathSample struct {
	Prefix  []int32
	Model   map[string]uint64
	Obs     []string
	Reached []string
}

type Explorer struct {
	run  *HarnessRun
	prog *ssa.Program
	seed int64

	mu        sync.Mutex
	cond      *sync.Cond
	queue     [][]int32
	active    int
	abort     string
	gcPending bool

	paths        int
	ends         map[string]int
	msgs         map[string]int
	reach        map[string]int
	cands        []*Candidate
	candSeen     map[string]int
	known        map[string]*KnownHit
	samples      []*PathSample
	obligations  int
	discharged   int
	undischarged int
	uncertain    int
	steps        int64
	decisions    int64
	funcs        map[*ssa.Function]bool
	initAborted  map[string]bool
	deadline     time.Time
	start        time.Time
	wall         time.Duration

	queries, sat, unsat, unknown, slow int
	solverDur                          time.Duration
	engineErrors                       []string
}

func newExplorer(prog *ssa.Program, run *HarnessRun, seed int64) *Explorer {
	e := &Explorer{run: run, prog: prog, seed: seed, ends: map[string]int{}, msgs: map[string]int{}, reach: map[string]int{},
		candSeen: map[string]int{}, known: map[string]*KnownHit{}, funcs: map[*ssa.Function]bool{}, initAborted: map[string]bool{}}
	e.cond = sync.NewCond(&e.mu)
	e.queue = [][]int32{{}}
	return e
}

func (e *Explorer) pop() ([]int32, bool) {
	e.mu.Lock()
	defer e.mu.Unlock()
	for {
		if e.abort != "" {
			return nil, false
		}
		// term-table barrier: emptied only while no path is running
		if e.gcPending {
			if e.active == 0 {
				clearTermTable()
				e.gcPending = false
				e.cond.Broadcast()
			} else {
				e.cond.Wait()
				continue
			}
		} else if atomic.LoadInt64(&termCount) > termTableLimit {
			e.gcPending = true
			continue
		}
		if e.run.MaxPaths > 0 && e.paths >= e.run.MaxPaths {
			e.abort = fmt.Sprintf("path limit %d reached", e.run.MaxPaths)
			e.cond.Broadcast()
			return nil, false
		}
		if time.Now().After(e.deadline) {
			e.abort = fmt.Sprintf("time limit %ds reached", e.run.TimeoutS)
			e.cond.Broadcast()
			return nil, false
		}
		if n := len(e.queue); n > 0 {
			p := e.queue[n-1]
			e.queue = e.queue[:n-1]
			e.active++
			return p, true
		}
		if e.active == 0 {
			e.cond.Broadcast()
			return nil, false
		}
		e.cond.Wait()
	}
}

func (e *Explorer) push(p []int32) {
	e.mu.Lock()
	e.queue = append(e.queue, p)
	e.mu.Unlock()
	e.cond.Signal()
}

func (e *Explorer) explore(workers int) {
	e.start = time.Now()
	e.deadline = e.start.Add(time.Duration(e.run.TimeoutS) * time.Second)
	var wg sync.WaitGroup
	for i := 0; i < workers; i++ {
		wg.Add(1)
		go func(id int) {
			defer wg.Done()
			e.worker(id)
		}(i)
	}
	wg.Wait()
	e.wall = time.Since(e.start)
}

func (e *Explorer) worker(id int) {
	logPath := ""
	if d := os.Getenv("GOSX_SMTLOG"); d != "" {
		logPath = fmt.Sprintf("%s.%s.%d.smt2", d, e.run.Name, id)
	}
	solver := newSolver(e.run.SolverMS, logPath)
	defer func() {
		e.mu.Lock()
		e.queries += solver.queries
		e.sat += solver.sat
		e.unsat += solver.unsat
		e.unknown += solver.unknown
		e.slow += solver.slow
		e.solverDur += solver.dur
		e.mu.Unlock()
		solver.close()
	}()
	for {
		prefix, ok := e.pop()
		if !ok {
			return
		}
		m := newMachine(e, solver, prefix)
		solver.resetSession()
		kind, msg := e.runPath(m, solver)
		e.record(m, kind, msg)
	}
}

func newMachine(e *Explorer, solver *Solver, prefix []int32) *Machine {
	r := e.run
	return &Machine{prog: e.prog, run: r, globals: map[*ssa.Global]*Obj{}, inited: map[*ssa.Package]int{}, prefix: prefix, exp: e, solver: solver,
		varSeq: map[string]int{}, chooses: map[string]uint64{}, funcsHit: map[*ssa.Function]bool{}, maxLoop: r.MaxLoop, maxDepth: r.MaxDepth,
		aliasTab: map[*Obj]map[string]*Obj{}, trace: os.Getenv("GOSX_TRACE") != "", maxSteps: 400_000_000}
}

// runPath executes the harness once along m.prefix. Engine-internal failures end the path as
// inconclusive (they are counted and reported, never turned into a verdict).
func (e *Explorer) runPath(m *Machine, solver *Solver) (kind, msg string) {
	defer func() {
		if len(m.threads) > 0 {
			m.killThreads()
		}
	}()
	defer func() {
		if r := recover(); r != nil {
			switch r := r.(type) {
			case *pathStop:
				kind, msg = r.kind, r.msg
			case *goPanic:
				kind, msg = "panic", r.msg
				if m.run.NeedPanic {
					return
				}
				m.addCandidate("panic", "uncaught panic: "+firstLine(r.msg), nil)
			case *solverDied:
				kind, msg = "inconclusive", "solver process died: "+r.err.Error()
				solver.restart()
			default:
				kind, msg = "inconclusive", fmt.Sprintf("engine error: %v", r)
				st := string(debug.Stack())
				e.mu.Lock()
				if len(e.engineErrors) < 5 {
					e.engineErrors = append(e.engineErrors, fmt.Sprintf("%v\n%s", r, trimStack(st)))
				}
				e.mu.Unlock()
			}
		}
	}()
	m.callSSA(nil, e.run.Fn, nil, nil)
	return "end", ""
}

func firstLine(s string) string {
	if i := strings.IndexByte(s, '\n'); i >= 0 {
		return s[:i]
	}
	return s
}

func trimStack(s string) string {
	lines := strings.Split(s, "\n")
	var out []string
	for _, l := range lines {
		if strings.Contains(l, "/engine/") {
			out = append(out, strings.TrimSpace(l))
		}
		if len(out) > 14 {
			break
		}
	}
	return strings.Join(out, "\n")
}

func (e *Explorer) record(m *Machine, kind, msg string) {
	// sample for translator validation: a completed path's model and observation log
	var sample *PathSample
	if kind == "end" && e.run.Validate > 0 && !m.frozenEver() {
		h := fnv.New64a()
		for _, d := range m.taken {
			h.Write([]byte{byte(d), byte(d >> 8), byte(d >> 16), byte(d >> 24)})
		}
		hv := h.Sum64() ^ uint64(e.seed)*0x9E3779B97F4A7C15
		e.mu.Lock()
		n := len(e.samples)
		e.mu.Unlock()
		if n < e.run.Validate && (n < e.run.Validate/4 || hv%16 == 0) {
			sample = m.makeSample()
		}
	}
	e.mu.Lock()
	defer e.mu.Unlock()
	e.active--
	e.paths++
	e.steps += m.steps
	e.decisions += int64(len(m.taken))
	e.obligations += m.obligations
	e.discharged += m.discharged
	e.undischarged += m.undischarged
	if m.uncertain {
		e.uncertain++
	}
	e.ends[kind]++
	if kind != "end" && kind != "infeasible" {
		k := kind + ": " + msg
		if len(k) > 300 {
			k = k[:300]
		}
		e.msgs[k]++
	}
	for _, r := range m.reached {
		e.reach[r]++
	}
	for f := range m.funcsHit {
		e.funcs[f] = true
	}
	for _, a := range m.initAborted {
		e.initAborted[a] = true
	}
	if sample != nil && len(e.samples) < e.run.Validate {
		e.samples = append(e.samples, sample)
	}
	if e.paths%5000 == 0 {
		fmt.Fprintf(os.Stderr, "    [%s] %d paths, queue %d, %.0fs\n", e.run.Name, e.paths, len(e.queue), time.Since(e.start).Seconds())
	}
	e.cond.Broadcast()
}

func (m *Machine) frozenEver() bool { return false }

func (m *Machine) makeSample() *PathSample {
	var want []*Term
	for _, o := range m.obs {
		for _, v := range o.vals {
			if v.sym != nil {
				want = append(want, v.sym)
			}
		}
	}
	res, model, wv := m.solver.model(m.pc, nil, want)
	if res != "sat" {
		return nil
	}
	s := &PathSample{Prefix: append([]int32{}, m.taken...), Model: model, Reached: append([]string{}, m.reached...)}
	for k, v := range m.chooses {
		s.Model[k] = v
	}
	k := 0
	for _, o := range m.obs {
		cv := make([]uint64, len(o.vals))
		for i, v := range o.vals {
			if v.sym != nil {
				cv[i] = wv[k]
				k++
			} else {
				cv[i] = v.c
			}
		}
		s.Obs = append(s.Obs, o.render(cv))
	}
	return s
}

func (o *obsEntry) render(cv []uint64) string {
	switch o.kind {
	case "int":
		return fmt.Sprintf("%s=%x", o.name, cv[0])
	case "bool":
		return fmt.Sprintf("%s=%v", o.name, cv[0] != 0)
	}
	b := make([]byte, len(cv))
	for i, c := range cv {
		b[i] = byte(c)
	}
	return fmt.Sprintf("%s=%x", o.name, b)
}

func (m *Machine) addCandidate(kind, label string, extra *Term) {
	key := kind + "|" + label
	e := m.exp
	e.mu.Lock()
	n := e.candSeen[key]
	e.candSeen[key] = n + 1
	e.mu.Unlock()
	if n >= 3 {
		return
	}
	var ex []*Term
	if extra != nil {
		ex = []*Term{extra}
	}
	res, model, _ := m.solver.model(m.pc, ex, nil)
	if res != "sat" {
		if res == "unknown" {
			m.uncertain = true
		}
		return
	}
	for k, v := range m.chooses {
		model[k] = v
	}
	c := &Candidate{Harness: m.run.Name, Kind: kind, Label: label, Model: model, Prefix: append([]int32{}, m.taken...)}
	e.mu.Lock()
	e.cands = append(e.cands, c)
	e.mu.Unlock()
}

func (m *Machine) pushAlt(d int32) {
	alt := make([]int32, len(m.taken)+1)
	copy(alt, m.taken)
	alt[len(m.taken)] = d
	m.exp.push(alt)
}

func (m *Machine) feasible(c *Term) bool {
	if time.Now().After(m.exp.deadline) {
		m.stop("inconclusive", "time limit reached inside a path (solver-bound; decisions %v)", m.chooses)
	}
	r, _ := m.solver.check(m.pc, []*Term{c}, nil)
	if r == "unknown" {
		m.uncertain = true
		return true
	}
	return r == "sat"
}

// known: is c decided by a literal already on the path condition? (The same symbolic data is
// often re-examined, e.g. decoded twice; hash-consing makes the conditions identical terms.)
func (m *Machine) known(c *Term) (val, ok bool) {
	if m.pcLit == nil {
		return false, false
	}
	if v, ok := m.pcLit[c]; ok {
		return v, true
	}
	if c.op == "not" {
		if v, ok := m.pcLit[c.args[0]]; ok {
			return !v, true
		}
	}
	return false, false
}

func (m *Machine) addPC(c *Term) {
	m.pc = append(m.pc, c)
	if m.pcLit == nil {
		m.pcLit = map[*Term]bool{}
	}
	if c.op == "not" {
		m.pcLit[c.args[0]] = false
	} else {
		m.pcLit[c] = true
	}
}

// branch decides a symbolic condition; returns the side taken.
func (m *Machine) branch(c *Term) bool {
	if c.isTrue() {
		return true
	}
	if c.isFalse() {
		return false
	}
	if v, ok := m.known(c); ok {
		return v
	}
	if m.decPos < len(m.prefix) {
		d := m.prefix[m.decPos]
		m.decPos++
		m.taken = append(m.taken, d)
		if d == 0 {
			m.addPC(c)
			return true
		}
		m.addPC(tNot(c))
		return false
	}
	m.decPos++
	ft := m.feasible(c)
	ff := true
	if ft {
		ff = m.feasible(tNot(c))
	}
	switch {
	case ft && ff:
		m.pushAlt(1)
		m.taken = append(m.taken, 0)
		m.addPC(c)
		return true
	case ft:
		m.taken = append(m.taken, 0)
		m.addPC(c)
		return true
	default:
		m.taken = append(m.taken, 1)
		m.addPC(tNot(c))
		return false
	}
}

const concretizeCap = 70

// concretize forks over all feasible values of t.
func (m *Machine) concretize(t *Term, w int, why string) int64 {
	if t.op == "const" {
		return int64(t.cv)
	}
	if m.decPos < len(m.prefix) {
		d := m.prefix[m.decPos]
		m.decPos++
		m.taken = append(m.taken, d)
		m.pc = append(m.pc, tEq(t, tConst(t.w, uint64(d))))
		return int64(d)
	}
	m.decPos++
	var vals []uint64
	var cs []*Term
	for len(vals) < concretizeCap {
		r, v := m.solver.check(m.pc, cs, []*Term{t})
		if r != "sat" {
			if r == "unknown" {
				m.stop("inconclusive", "solver unknown while concretizing %s (decisions %v)", why, m.chooses)
			}
			break
		}
		if len(v) != 1 {
			m.stop("inconclusive", "no value while concretizing %s", why)
		}
		if v[0] > 1<<30 {
			m.stop("inconclusive", "huge value concretizing %s", why)
		}
		vals = append(vals, v[0])
		cs = append(cs, tNot(tEq(t, tConst(t.w, v[0]))))
	}
	if len(vals) >= concretizeCap {
		m.stop("inconclusive", "more than %d values concretizing %s", concretizeCap, why)
	}
	if len(vals) == 0 {
		m.stop("infeasible", "no value for %s", why)
	}
	sort.Slice(vals, func(i, j int) bool { return vals[i] < vals[j] })
	for _, v := range vals[1:] {
		m.pushAlt(int32(v))
	}
	m.taken = append(m.taken, int32(vals[0]))
	m.pc = append(m.pc, tEq(t, tConst(t.w, vals[0])))
	return int64(vals[0])
}

// choose: harness-level enumeration decision.
func (m *Machine) choose(n int) int {
	if n <= 1 {
		return 0
	}
	if m.decPos < len(m.prefix) {
		d := m.prefix[m.decPos]
		m.decPos++
		m.taken = append(m.taken, d)
		return int(d)
	}
	m.decPos++
	for i := n - 1; i >= 1; i-- {
		m.pushAlt(int32(i))
	}
	m.taken = append(m.taken, 0)
	return 0
}

func (m *Machine) assume(c *Term) {
	if c.isTrue() {
		return
	}
	if c.isFalse() {
		m.stop("infeasible", "assume false")
	}
	m.pc = append(m.pc, c)
	r, _ := m.solver.check(m.pc, nil, nil)
	if r == "unsat" {
		m.stop("infeasible", "assume")
	}
	if r == "unknown" {
		m.uncertain = true
	}
}
