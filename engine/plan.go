package main

import (
	"encoding/json"
	"fmt"
	"os"
	"path/filepath"
	"regexp"
	"sort"
	"strings"
)

// Plan: which harnesses decide which property, under which bounds per tier.
type PlanHarness struct {
	Name      string            `json:"name"`
	Pkg       string            `json:"pkg"` // directory below the module root (virtual for zzverif/*)
	Fn        string            `json:"fn"`
	Quick     map[string]int64  `json:"quick"`    // nil: not part of the quick tier
	Thorough  map[string]int64  `json:"thorough"` // nil: same as quick
	MaxLoop   int               `json:"maxloop"`
	MaxDepth  int               `json:"maxdepth"`
	MaxPaths  int               `json:"maxpaths"`
	TimeoutS  int               `json:"timeout_s"`
	TimeoutTh int               `json:"timeout_thorough_s"`
	SolverMS  int               `json:"solver_ms"`
	Validate  int               `json:"validate"`
	Reach     []string          `json:"reach"`
	Models    map[string]string `json:"models"`
	Bounds    string            `json:"bounds"` // human-readable statement of the bound
	Asserts   string            `json:"asserts"`
	Twin      bool              `json:"twin"` // reachability twin: must end violated
	QuickOnly bool              `json:"quick_only"`
}

// Rewrite: a source file of /repo that the check compiles (in the engine and natively) as a copy
// regenerated from the working tree with fixed textual substitutions (used to put fsstore on a
// model file system).
type Rewrite struct {
	File  string      `json:"file"`
	Subst [][2]string `json:"subst"`
}

// Pregen: code generated from the working tree before the encoding is built (C13: the Go code
// generator of /repo is run on the schema family and its output joins the overlay).
type Pregen struct {
	Cmd string `json:"cmd"` // package (below the module root, in the overlay) whose main takes the output dir
	Out string `json:"out"` // package path (below the module root) the generated files are mapped to
}

type PlanProperty struct {
	Rewrites    []Rewrite     `json:"rewrites"`
	Race        bool          `json:"race"` // build the native replay binary with the race detector
	Pregen      *Pregen       `json:"pregen"`
	Level       string        `json:"level"`
	Harnesses   []PlanHarness `json:"harnesses"`
	Assumptions []string      `json:"assumptions"`
	Stubs       []string      `json:"stubs"`
	Outside     []string      `json:"outside"`
}

type KnownFinding struct {
	ID       string `json:"id"`
	Property string `json:"property"`
	Status   string `json:"status"` // known | fixed
	What     string `json:"what"`
	Commit   string `json:"commit,omitempty"`
}

func loadPlan(dir string) map[string]*PlanProperty {
	plan := map[string]*PlanProperty{}
	files, _ := filepath.Glob(filepath.Join(dir, "plan", "*.json"))
	sort.Strings(files)
	for _, f := range files {
		b, err := os.ReadFile(f)
		if err != nil {
			fatal("plan: %v", err)
		}
		var p map[string]*PlanProperty
		if err := json.Unmarshal(b, &p); err != nil {
			fatal("plan %s: %v", f, err)
		}
		for k, v := range p {
			plan[k] = v
		}
	}
	return plan
}

func loadKnown(path string) []KnownFinding {
	b, err := os.ReadFile(path)
	if err != nil {
		return nil
	}
	var k struct {
		Findings []KnownFinding `json:"findings"`
	}
	if err := json.Unmarshal(b, &k); err != nil {
		fatal("known findings: %v", err)
	}
	return k.Findings
}

func fatal(format string, args ...interface{}) {
	fmt.Fprintf(os.Stderr, "gosx: "+format+"\n", args...)
	os.Exit(3)
}

var pkgClauseRE = regexp.MustCompile(`(?m)^package\s+(\w+)`)

// Overlay: harness sources mapped into the module under /repo.
//
//	harness/nd/*.go            -> <repo>/internal/verifnd/
//	harness/inpkg/<rel>/*.go   -> <repo>/<rel>/          (in-package harnesses)
//	harness/<dir>/*.go         -> <repo>/zzverif/<dir>/
type Overlay struct {
	Files    map[string]string // virtual path -> real path
	PkgName  map[string]string // pkg dir (relative to repo) -> package name
	PkgFuncs map[string][]string
}

func buildOverlay(harnessDir, repo string) *Overlay {
	ov := &Overlay{Files: map[string]string{}, PkgName: map[string]string{}, PkgFuncs: map[string][]string{}}
	filepath.Walk(harnessDir, func(p string, info os.FileInfo, err error) error {
		if err != nil || info.IsDir() || !strings.HasSuffix(p, ".go") {
			return nil
		}
		rel, _ := filepath.Rel(harnessDir, p)
		parts := strings.Split(rel, string(filepath.Separator))
		var vdir string
		switch {
		case parts[0] == "nd":
			vdir = "internal/verifnd"
		case parts[0] == "inpkg":
			vdir = filepath.Join(parts[1 : len(parts)-1]...)
		case parts[0] == "plan":
			return nil
		default:
			vdir = filepath.Join(append([]string{"zzverif"}, parts[:len(parts)-1]...)...)
		}
		ov.Files[filepath.Join(repo, vdir, parts[len(parts)-1])] = p
		if b, err := os.ReadFile(p); err == nil {
			if m := pkgClauseRE.FindSubmatch(b); m != nil && !strings.HasSuffix(p, "_test.go") {
				ov.PkgName[vdir] = string(m[1])
			}
		}
		return nil
	})
	return ov
}
