package main

import (
	"fmt"
	"go/types"

	"golang.org/x/tools/go/ssa"
)

type value interface{}

// Scalar: bool / any int / float bits. sym==nil => concrete bits in c (masked to width).
type Scalar struct {
	sym *Term
	c   uint64
}

func (s Scalar) isConc() bool { return s.sym == nil }

type String struct {
	b []Scalar // each 8-bit
}

type Struct []value
type Array []value
type Tuple []value

type Obj struct {
	v      value
	id     int
	frozen bool
	grow   value // non-nil: growable array (symbolic capacity); zero element
	global bool
	name   string
}

type Ptr struct {
	obj  *Obj
	path []int
	sym  *Term // optional trailing symbolic index (64-bit), element of the array at path
	symN int   // length of that array
}

type Slice struct {
	arr *Obj // holds Array; nil => nil slice
	off int
	len Scalar // 64-bit
	cap Scalar
}

type mapEntry struct {
	k, v value
	dead bool
}
type Map struct {
	entries []*mapEntry
	id      int
}

type Iface struct {
	t types.Type // nil => nil interface
	v value
}

type Closure struct {
	fn  *ssa.Function
	env []value
}

type Builtin struct {
	name string
	data interface{} // engine-made callables (e.g. the swap function handed to the real sort code)
}

type BoundMethod struct { // interface method value
	recv Iface
	name string
	pkg  *types.Package
}

type Poison struct{ why string }

type RangeIter struct {
	m        *Map
	s        *String
	pos      int
	snapshot []*mapEntry
}

// Opaque engine-native value (e.g. for models)
type Native struct {
	kind string
	data interface{}
}

func conc(w int, v uint64) Scalar { return Scalar{c: v & mask(w)} }
func boolS(b bool) Scalar {
	if b {
		return Scalar{c: 1}
	}
	return Scalar{c: 0}
}

func (s Scalar) term(w int) *Term {
	if s.sym != nil {
		return s.sym
	}
	if w == 0 {
		return tBool(s.c != 0)
	}
	return tConst(w, s.c)
}

func fromTerm(t *Term) Scalar {
	switch t.op {
	case "const":
		return Scalar{c: t.cv}
	case "true":
		return Scalar{c: 1}
	case "false":
		return Scalar{c: 0}
	}
	return Scalar{sym: t}
}

func strOf(s string) *String {
	b := make([]Scalar, len(s))
	for i := 0; i < len(s); i++ {
		b[i] = Scalar{c: uint64(s[i])}
	}
	return &String{b: b}
}

func (s *String) concrete() (string, bool) {
	bs := make([]byte, len(s.b))
	for i, x := range s.b {
		if x.sym != nil {
			return "", false
		}
		bs[i] = byte(x.c)
	}
	return string(bs), true
}

func (s *String) String() string {
	if c, ok := s.concrete(); ok {
		return fmt.Sprintf("%q", c)
	}
	return fmt.Sprintf("<symstr len=%d>", len(s.b))
}

func copyVal(v value) value {
	switch v := v.(type) {
	case Struct:
		n := make(Struct, len(v))
		for i, x := range v {
			n[i] = copyVal(x)
		}
		return n
	case Array:
		n := make(Array, len(v))
		for i, x := range v {
			n[i] = copyVal(x)
		}
		return n
	}
	return v
}

func widthOf(t types.Type) int {
	switch b := t.Underlying().(type) {
	case *types.Basic:
		switch b.Kind() {
		case types.Bool, types.UntypedBool:
			return 0
		case types.Int8, types.Uint8:
			return 8
		case types.Int16, types.Uint16:
			return 16
		case types.Int32, types.Uint32, types.Float32, types.UntypedRune:
			return 32
		case types.Int, types.Uint, types.Int64, types.Uint64, types.Uintptr, types.Float64, types.UntypedInt, types.UntypedFloat:
			return 64
		case types.UnsafePointer:
			return -1
		}
	}
	return -1
}

func isSigned(t types.Type) bool {
	if b, ok := t.Underlying().(*types.Basic); ok {
		return b.Info()&types.IsInteger != 0 && b.Info()&types.IsUnsigned == 0
	}
	return false
}
func isFloat(t types.Type) bool {
	if b, ok := t.Underlying().(*types.Basic); ok {
		return b.Info()&types.IsFloat != 0
	}
	return false
}
func isString(t types.Type) bool {
	if b, ok := t.Underlying().(*types.Basic); ok {
		return b.Info()&types.IsString != 0
	}
	return false
}

func zero(t types.Type) value {
	switch u := t.Underlying().(type) {
	case *types.Basic:
		if u.Kind() == types.String || u.Kind() == types.UntypedString {
			return &String{}
		}
		if u.Kind() == types.UnsafePointer {
			return Ptr{}
		}
		if u.Kind() == types.UntypedNil {
			return nil
		}
		return Scalar{}
	case *types.Struct:
		s := make(Struct, u.NumFields())
		for i := range s {
			s[i] = zero(u.Field(i).Type())
		}
		return s
	case *types.Array:
		n := int(u.Len())
		a := make(Array, n)
		if n > 0 {
			if _, ok := u.Elem().Underlying().(*types.Basic); ok {
				z := zero(u.Elem())
				for i := range a {
					a[i] = z
				}
			} else {
				for i := range a {
					a[i] = zero(u.Elem())
				}
			}
		}
		return a
	case *types.Pointer:
		return Ptr{}
	case *types.Slice:
		return Slice{}
	case *types.Map:
		return (*Map)(nil)
	case *types.Interface:
		return Iface{}
	case *types.Signature:
		return (*Closure)(nil)
	case *types.Chan:
		return nil
	case *types.Tuple:
		tp := make(Tuple, u.Len())
		for i := range tp {
			tp[i] = zero(u.At(i).Type())
		}
		return tp
	}
	panic(fmt.Sprintf("zero: unhandled type %T %v", t, t))
}
