package main

import (
	"fmt"
	"strings"
	"sync"
	"sync/atomic"
)

// Term is a hash-consed SMT term. Sort: width 0 = Bool, else BitVec(width).
type Term struct {
	op   string
	args []*Term
	w    int    // 0 bool, >0 bitvec width
	cv   uint64 // for consts
	name string // for vars
	p1   int    // extract hi / extend amount
	p2   int    // extract lo
	id   int
}

// The term table provides sharing (hash-consing). Within one path execution structurally equal
// terms are the same pointer (the path-literal cache of branch() relies on that), so the table is
// never changed while a path runs: it is sharded for the concurrent workers and emptied only at a
// barrier between paths (Explorer.pop), after which the garbage collector reclaims the old terms.
type termKey struct {
	op     string
	name   string
	cv     uint64
	w      int32
	p1, p2 int32
	n      int32
	a      [3]int64
}

const termShards = 256
const termTableLimit = 3_000_000

var termCount int64

func clearTermTable() {
	for i := range termTab {
		termTab[i].mu.Lock()
		termTab[i].m = nil
		termTab[i].mu.Unlock()
	}
	atomic.StoreInt64(&termCount, 0)
}

type termShard struct {
	mu sync.Mutex
	m  map[termKey]*Term
	_  [40]byte
}

var termTab [termShards]termShard
var termSeq int64

func mkTerm(t Term) *Term {
	k := termKey{op: t.op, name: t.name, cv: t.cv, w: int32(t.w), p1: int32(t.p1), p2: int32(t.p2), n: int32(len(t.args))}
	h := uint64(len(t.op))*1000003 + t.cv*0x9E3779B97F4A7C15 + uint64(t.w)*31 + uint64(t.p1)*131 + uint64(t.p2)*137 + uint64(len(t.name))*7
	if len(t.op) > 2 {
		h += uint64(t.op[2]) * 1315423911
	}
	if len(t.name) > 0 {
		for i := 0; i < len(t.name); i++ {
			h = h*33 + uint64(t.name[i])
		}
	}
	if len(t.args) > 3 {
		panic("term with more than 3 args")
	}
	for i, a := range t.args {
		k.a[i] = int64(a.id)
		h = (h ^ uint64(a.id)) * 0x100000001B3
	}
	sh := &termTab[(h^(h>>29))%termShards]
	sh.mu.Lock()
	if sh.m == nil {
		sh.m = make(map[termKey]*Term, 1024)
	}
	if x, ok := sh.m[k]; ok {
		sh.mu.Unlock()
		return x
	}
	atomic.AddInt64(&termCount, 1)
	t.id = int(atomic.AddInt64(&termSeq, 1))
	nt := new(Term)
	*nt = t
	sh.m[k] = nt
	sh.mu.Unlock()
	return nt
}

func mask(w int) uint64 {
	if w >= 64 {
		return ^uint64(0)
	}
	return (uint64(1) << uint(w)) - 1
}

// Hot constants are pre-built so that they never touch the (locked) term table.
var (
	termTrue, termFalse *Term
	const8              [256]*Term
	const64             [1024]*Term
)

func init() {
	termTrue = mkTerm(Term{op: "true"})
	termFalse = mkTerm(Term{op: "false"})
	for i := range const8 {
		const8[i] = mkTerm(Term{op: "const", w: 8, cv: uint64(i)})
	}
	for i := range const64 {
		const64[i] = mkTerm(Term{op: "const", w: 64, cv: uint64(i)})
	}
}

func tConst(w int, v uint64) *Term {
	v &= mask(w)
	if w == 8 {
		return const8[v]
	}
	if w == 64 && v < uint64(len(const64)) {
		return const64[v]
	}
	return mkTerm(Term{op: "const", w: w, cv: v})
}
func tBool(b bool) *Term {
	if b {
		return termTrue
	}
	return termFalse
}
func tVar(name string, w int) *Term { return mkTerm(Term{op: "var", w: w, name: name}) }
func (t *Term) isConst() bool       { return t.op == "const" || t.op == "true" || t.op == "false" }
func (t *Term) isTrue() bool        { return t.op == "true" }
func (t *Term) isFalse() bool       { return t.op == "false" }

func tNot(a *Term) *Term {
	if a.isTrue() {
		return tBool(false)
	}
	if a.isFalse() {
		return tBool(true)
	}
	if a.op == "not" {
		return a.args[0]
	}
	return mkTerm(Term{op: "not", args: []*Term{a}})
}
func tAnd(a, b *Term) *Term {
	if a.isFalse() || b.isFalse() {
		return tBool(false)
	}
	if a.isTrue() {
		return b
	}
	if b.isTrue() {
		return a
	}
	if a == b {
		return a
	}
	return mkTerm(Term{op: "and", args: []*Term{a, b}})
}
func tOr(a, b *Term) *Term {
	if a.isTrue() || b.isTrue() {
		return tBool(true)
	}
	if a.isFalse() {
		return b
	}
	if b.isFalse() {
		return a
	}
	if a == b {
		return a
	}
	return mkTerm(Term{op: "or", args: []*Term{a, b}})
}
func tIte(c, a, b *Term) *Term {
	if c.isTrue() {
		return a
	}
	if c.isFalse() {
		return b
	}
	if a == b {
		return a
	}
	return mkTerm(Term{op: "ite", w: a.w, args: []*Term{c, a, b}})
}
func tEq(a, b *Term) *Term {
	if a == b {
		return tBool(true)
	}
	if a.isConst() && b.isConst() {
		return tBool(a.op == b.op && a.cv == b.cv)
	}
	if a.op == "const" {
		a, b = b, a
	}
	if a.op == "zext" && b.op == "const" {
		in := a.args[0]
		if b.cv > mask(in.w) {
			return tBool(false)
		}
		return tEq(in, tConst(in.w, b.cv))
	}
	return mkTerm(Term{op: "=", args: []*Term{a, b}})
}

// binary bitvector op producing bitvector of same width
func tBV(op string, a, b *Term) *Term {
	return mkTerm(Term{op: op, w: a.w, args: []*Term{a, b}})
}

// comparison producing Bool
func tCmp(op string, a, b *Term) *Term {
	return mkTerm(Term{op: op, args: []*Term{a, b}})
}
func tExtract(hi, lo int, a *Term) *Term {
	if lo == 0 && hi == a.w-1 {
		return a
	}
	if a.op == "const" {
		return tConst(hi-lo+1, a.cv>>uint(lo))
	}
	return mkTerm(Term{op: "extract", w: hi - lo + 1, p1: hi, p2: lo, args: []*Term{a}})
}
func tZext(a *Term, to int) *Term {
	if to == a.w {
		return a
	}
	if a.op == "const" {
		return tConst(to, a.cv)
	}
	return mkTerm(Term{op: "zext", w: to, p1: to - a.w, args: []*Term{a}})
}
func tSext(a *Term, to int) *Term {
	if to == a.w {
		return a
	}
	if a.op == "const" {
		v := a.cv
		if v>>(uint(a.w)-1)&1 == 1 {
			v |= ^mask(a.w)
		}
		return tConst(to, v)
	}
	return mkTerm(Term{op: "sext", w: to, p1: to - a.w, args: []*Term{a}})
}
func tBvNot(a *Term) *Term { return mkTerm(Term{op: "bvnot", w: a.w, args: []*Term{a}}) }
func tBvNeg(a *Term) *Term { return mkTerm(Term{op: "bvneg", w: a.w, args: []*Term{a}}) }

func sortStr(w int) string {
	if w == 0 {
		return "Bool"
	}
	if w == -64 {
		return "(_ FloatingPoint 11 53)"
	}
	if w == -32 {
		return "(_ FloatingPoint 8 24)"
	}
	return fmt.Sprintf("(_ BitVec %d)", w)
}

// smt prints term with let-free expansion but memoized through define-fun emitted in `defs`.
type smtPrinter struct {
	defs   *strings.Builder
	done   map[int]string
	vars   map[string]int
	varord []string
}

func newPrinter() *smtPrinter {
	return &smtPrinter{defs: &strings.Builder{}, done: map[int]string{}, vars: map[string]int{}}
}

func (p *smtPrinter) ref(t *Term) string {
	if s, ok := p.done[t.id]; ok {
		return s
	}
	var s string
	switch t.op {
	case "true", "false":
		s = t.op
	case "const":
		s = fmt.Sprintf("(_ bv%d %d)", t.cv, t.w)
	case "var":
		if _, ok := p.vars[t.name]; !ok {
			p.vars[t.name] = t.w
			p.varord = append(p.varord, quoteSym(t.name))
			fmt.Fprintf(p.defs, "(declare-const %s %s)\n", quoteSym(t.name), sortStr(t.w))
		}
		s = quoteSym(t.name)
	default:
		args := make([]string, len(t.args))
		for i, a := range t.args {
			args[i] = p.ref(a)
		}
		var e string
		switch t.op {
		case "extract":
			e = fmt.Sprintf("((_ extract %d %d) %s)", t.p1, t.p2, args[0])
		case "zext":
			e = fmt.Sprintf("((_ zero_extend %d) %s)", t.p1, args[0])
		case "sext":
			e = fmt.Sprintf("((_ sign_extend %d) %s)", t.p1, args[0])
		default:
			e = "(" + t.op + " " + strings.Join(args, " ") + ")"
		}
		if len(e) > 60 {
			n := fmt.Sprintf("t!%d", t.id)
			fmt.Fprintf(p.defs, "(define-fun %s () %s %s)\n", n, sortStr(t.w), e)
			s = n
		} else {
			s = e
		}
	}
	p.done[t.id] = s
	return s
}

// named returns a symbol standing for t (a define-fun for compound terms), so that get-value
// echoes a symbol and never an expression containing literals.
func (p *smtPrinter) named(t *Term) string {
	r := p.ref(t)
	if t.op == "var" || strings.HasPrefix(r, "t!") {
		return r
	}
	n := fmt.Sprintf("o!%d", t.id)
	if _, ok := p.done[-t.id]; !ok {
		fmt.Fprintf(p.defs, "(define-fun %s () %s %s)\n", n, sortStr(t.w), r)
		p.done[-t.id] = n
	}
	return n
}
