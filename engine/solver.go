package main

import (
	"bufio"
	"fmt"
	"io"
	"os"
	"os/exec"
	"strconv"
	"strings"
	"time"
)

// Solver is one incremental solver session (one process per worker): one (reset) per path, the
// path condition asserted at base level as it grows, every feasibility / assertion query inside
// (push)(assert q)(check-sat)(pop).
type Solver struct {
	cmd       *exec.Cmd
	in        *bufio.Writer
	inc       io.WriteCloser
	out       *bufio.Reader
	p         *smtPrinter
	nAsserted int
	timeoutMS int
	logf      *os.File

	queries, sat, unsat, unknown, errors int
	dur                                  time.Duration
	slow                                 int
}

func newSolver(timeoutMS int, logPath string) *Solver {
	s := &Solver{timeoutMS: timeoutMS}
	if logPath != "" {
		s.logf, _ = os.Create(logPath)
	}
	s.start()
	return s
}

func (s *Solver) start() {
	cmd := exec.Command("z3", "-in", fmt.Sprintf("-t:%d", s.timeoutMS))
	in, _ := cmd.StdinPipe()
	out, _ := cmd.StdoutPipe()
	cmd.Stderr = cmd.Stdout
	if err := cmd.Start(); err != nil {
		panic(err)
	}
	var w io.Writer = in
	if s.logf != nil {
		w = io.MultiWriter(in, s.logf)
	}
	s.cmd, s.in, s.inc, s.out = cmd, bufio.NewWriterSize(w, 1<<16), in, bufio.NewReaderSize(out, 1<<16)
	s.resetSession()
}

func (s *Solver) close() {
	s.in.Flush()
	s.inc.Close()
	s.cmd.Wait()
	if s.logf != nil {
		s.logf.Close()
	}
}

func (s *Solver) restart() {
	s.inc.Close()
	s.cmd.Process.Kill()
	s.cmd.Wait()
	s.start()
}

func (s *Solver) resetSession() {
	s.in.WriteString("(reset)\n")
	s.p = newPrinter()
	s.nAsserted = 0
}

// syncPC brings the base-level assertions up to date with pc (pc only grows within a path).
func (s *Solver) syncPC(pc []*Term) {
	for s.nAsserted < len(pc) {
		r := s.p.ref(pc[s.nAsserted])
		s.flushDefs()
		fmt.Fprintf(s.in, "(assert %s)\n", r)
		s.nAsserted++
	}
}

func (s *Solver) flushDefs() {
	if s.p.defs.Len() > 0 {
		s.in.WriteString(s.p.defs.String())
		s.p.defs.Reset()
	}
}

type solverDied struct{ err error }

func (s *Solver) readRes() string {
	s.in.Flush()
	var res string
	for res == "" {
		line, err := s.out.ReadString('\n')
		if err != nil {
			panic(&solverDied{err})
		}
		res = strings.TrimSpace(line)
	}
	if strings.HasPrefix(res, "(error") {
		s.errors++
		if s.errors < 5 {
			fmt.Fprintln(os.Stderr, "SOLVER ERROR:", res)
		}
		return "unknown"
	}
	switch res {
	case "sat":
		s.sat++
	case "unsat":
		s.unsat++
	default:
		s.unknown++
		res = "unknown"
	}
	return res
}

// check: is pc ∧ extra satisfiable? With wantVals, the values of those terms in the model.
func (s *Solver) check(pc []*Term, extra []*Term, wantVals []*Term) (string, []uint64) {
	t0 := time.Now()
	defer func() { s.dur += time.Since(t0) }()
	s.queries++
	s.syncPC(pc)
	refs := make([]string, 0, len(extra))
	for _, e := range extra {
		refs = append(refs, s.p.ref(e))
	}
	var vals []string
	for _, v := range wantVals {
		vals = append(vals, s.p.named(v))
	}
	s.flushDefs()
	s.in.WriteString("(push 1)\n")
	for _, r := range refs {
		fmt.Fprintf(s.in, "(assert %s)\n", r)
	}
	s.in.WriteString("(check-sat)\n")
	res := s.readRes()
	if time.Since(t0) > time.Second {
		s.slow++
	}
	var out []uint64
	if res == "sat" && len(vals) > 0 {
		s.in.WriteString("(get-value (" + strings.Join(vals, " ") + "))\n")
		s.in.Flush()
		out = parseValues(s.readSexp(), len(vals))
	}
	s.in.WriteString("(pop 1)\n")
	return res, out
}

// model: satisfiability of pc ∧ extra and, when sat, the value of every variable declared in
// this session (variables the path never mentioned are unconstrained: the native side reads 0)
// and of the terms in want, all under the same model.
func (s *Solver) model(pc []*Term, extra []*Term, want []*Term) (string, map[string]uint64, []uint64) {
	t0 := time.Now()
	defer func() { s.dur += time.Since(t0) }()
	s.queries++
	s.syncPC(pc)
	refs := make([]string, 0, len(extra))
	for _, e := range extra {
		refs = append(refs, s.p.ref(e))
	}
	wn := make([]string, len(want))
	for i, w := range want {
		wn[i] = s.p.named(w)
	}
	s.flushDefs()
	s.in.WriteString("(push 1)\n")
	for _, r := range refs {
		fmt.Fprintf(s.in, "(assert %s)\n", r)
	}
	s.in.WriteString("(check-sat)\n")
	res := s.readRes()
	var out map[string]uint64
	var wv []uint64
	if res == "sat" {
		out = map[string]uint64{}
		names := append(append([]string{}, s.p.varord...), wn...)
		var all []uint64
		for i := 0; i < len(names); i += 200 {
			j := i + 200
			if j > len(names) {
				j = len(names)
			}
			s.in.WriteString("(get-value (" + strings.Join(names[i:j], " ") + "))\n")
			s.in.Flush()
			vs := parseValues(s.readSexp(), j-i)
			if len(vs) != j-i {
				res = "unknown"
				break
			}
			all = append(all, vs...)
		}
		if res == "sat" {
			nv := len(s.p.varord)
			for k, n := range s.p.varord {
				out[unquoteSym(n)] = all[k]
			}
			wv = all[nv:]
		}
	}
	s.in.WriteString("(pop 1)\n")
	return res, out, wv
}

func (s *Solver) readSexp() string {
	depth := 0
	var sb strings.Builder
	started := false
	for {
		b, err := s.out.ReadByte()
		if err != nil {
			panic(&solverDied{err})
		}
		sb.WriteByte(b)
		if b == '(' {
			depth++
			started = true
		} else if b == ')' {
			depth--
		}
		if started && depth == 0 {
			break
		}
	}
	return sb.String()
}

// parseValues reads the value tokens (#x.., #b.., true, false) of a get-value answer; symbols are
// printed |quoted| so they never look like values.
func parseValues(txt string, n int) []uint64 {
	var out []uint64
	inq := false
	var cur strings.Builder
	flush := func() {
		t := cur.String()
		cur.Reset()
		switch {
		case strings.HasPrefix(t, "#x"):
			v, _ := strconv.ParseUint(t[2:], 16, 64)
			out = append(out, v)
		case strings.HasPrefix(t, "#b"):
			v, _ := strconv.ParseUint(t[2:], 2, 64)
			out = append(out, v)
		case t == "true":
			out = append(out, 1)
		case t == "false":
			out = append(out, 0)
		}
	}
	for i := 0; i < len(txt); i++ {
		c := txt[i]
		if inq {
			if c == '|' {
				inq = false
			}
			continue
		}
		switch c {
		case '|':
			flush()
			inq = true
		case ' ', '\n', '\t', '\r', '(', ')':
			flush()
		default:
			cur.WriteByte(c)
		}
	}
	flush()
	if len(out) > n {
		out = out[len(out)-n:]
	}
	return out
}

func quoteSym(n string) string   { return "|" + n + "|" }
func unquoteSym(n string) string { return strings.Trim(n, "|") }
