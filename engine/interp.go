package main

import (
	"fmt"
	"go/constant"
	"go/token"
	"go/types"
	"os"
	"strings"
	"sync"
	"time"

	"golang.org/x/tools/go/ssa"
)

type goPanic struct {
	v   value
	msg string
}
type pathStop struct {
	kind string // "end", "infeasible", "inconclusive", "violation"
	msg  string
}

type deferred struct {
	fn    value
	args  []value
	instr *ssa.Defer
}

type frame struct {
	m         *Machine
	fn        *ssa.Function
	caller    *frame
	block     *ssa.BasicBlock
	prev      *ssa.BasicBlock
	env       []value
	info      *fnInfo
	defers    []*deferred
	result    value
	panicking *goPanic
	loopCnt   map[*ssa.BasicBlock]int
}

// fnInfo numbers the SSA values of a function so that a frame's environment is a flat slice.
type fnInfo struct {
	slots map[ssa.Value]int
	n     int
}

var fnInfos sync.Map // *ssa.Function -> *fnInfo

func infoOf(fn *ssa.Function) *fnInfo {
	if x, ok := fnInfos.Load(fn); ok {
		return x.(*fnInfo)
	}
	fi := &fnInfo{slots: map[ssa.Value]int{}}
	add := func(v ssa.Value) {
		fi.slots[v] = fi.n
		fi.n++
	}
	for _, p := range fn.Params {
		add(p)
	}
	for _, p := range fn.FreeVars {
		add(p)
	}
	for _, b := range fn.Blocks {
		for _, in := range b.Instrs {
			if v, ok := in.(ssa.Value); ok {
				add(v)
			}
		}
	}
	x, _ := fnInfos.LoadOrStore(fn, fi)
	return x.(*fnInfo)
}

type Machine struct {
	prog         *ssa.Program
	run          *HarnessRun
	globals      map[*ssa.Global]*Obj
	inited       map[*ssa.Package]int // 1 in progress 2 done
	pc           []*Term
	pcLit        map[*Term]bool
	prefix       []int32
	decPos       int
	taken        []int32
	exp          *Explorer
	solver       *Solver
	steps        int64
	objSeq       int
	depth        int
	varSeq       map[string]int
	chooses      map[string]uint64
	funcsHit     map[*ssa.Function]bool
	trace        bool
	maxLoop      int
	maxDepth     int
	uncertain    bool
	freezeBelow  int
	frozen       bool
	inInit       int
	initAborted  []string
	obligations  int
	discharged   int
	undischarged int
	aliasTab     map[*Obj]map[string]*Obj
	obs          []obsEntry
	reached      []string
	allocBytes   Scalar // bytes requested through make/new/append since nd.AllocReset (C10)
	allocOn      bool
	maxSteps     int64
	syncDepth    int
	pools        map[string][]value // sync.Pool contents and sync.Once flags, by address
	syncMaps     map[string]*Map
	threads      []*ithread
	curThread    *ithread
	mainResume   chan struct{}
	mainDepth    int
	threadPanic  interface{}
	killed       bool
}

type obsEntry struct {
	name string
	kind string // int, bool, bytes
	vals []Scalar
	w    int
}

func (m *Machine) newObj(v value) *Obj {
	m.objSeq++
	return &Obj{v: v, id: m.objSeq}
}

func (m *Machine) stop(kind, format string, args ...interface{}) {
	panic(&pathStop{kind: kind, msg: fmt.Sprintf(format, args...)})
}

func (m *Machine) goPanicStr(msg string) {
	panic(&goPanic{v: Iface{t: types.Typ[types.String], v: strOf(msg)}, msg: msg})
}

// ---------- memory ----------

func (m *Machine) resolve(p Ptr) (container value, idx int, whole *Obj) {
	if p.obj == nil {
		m.goPanicStr("runtime error: invalid memory address or nil pointer dereference")
	}
	if len(p.path) == 0 {
		return nil, -1, p.obj
	}
	if p.obj.grow != nil {
		m.growTo(p.obj, p.path[0]+1)
	}
	cur := p.obj.v
	for i := 0; i < len(p.path)-1; i++ {
		cur = elemOf(cur, p.path[i])
	}
	return cur, p.path[len(p.path)-1], nil
}

func elemOf(c value, i int) value {
	switch c := c.(type) {
	case Struct:
		return c[i]
	case Array:
		return c[i]
	}
	panic(fmt.Sprintf("elemOf: bad container %T", c))
}
func assignInPlace(old, v value) bool {
	oa, ok1 := old.(Array)
	na, ok2 := v.(Array)
	if ok1 && ok2 && len(oa) == len(na) {
		for i := range oa {
			if !assignInPlace(oa[i], na[i]) {
				oa[i] = copyVal(na[i])
			}
		}
		return true
	}
	os, ok1 := old.(Struct)
	ns, ok2 := v.(Struct)
	if ok1 && ok2 && len(os) == len(ns) {
		for i := range os {
			if !assignInPlace(os[i], ns[i]) {
				os[i] = copyVal(ns[i])
			}
		}
		return true
	}
	return false
}

func setElem(c value, i int, v value) {
	switch c := c.(type) {
	case Struct:
		if !assignInPlace(c[i], v) {
			c[i] = copyVal(v)
		}
	case Array:
		if !assignInPlace(c[i], v) {
			c[i] = copyVal(v)
		}
	default:
		panic(fmt.Sprintf("setElem: bad container %T", c))
	}
}

func (m *Machine) symPtrConcrete(p Ptr) Ptr {
	k := int(m.concretize(p.sym, 64, "symbolic element pointer"))
	np := make([]int, len(p.path))
	copy(np, p.path)
	np[len(np)-1] += k
	return Ptr{obj: p.obj, path: np}
}

func (m *Machine) load(p Ptr) value {
	if p.sym != nil {
		// ite chain over scalar elements
		base := p.path[len(p.path)-1]
		q := Ptr{obj: p.obj, path: append(append([]int{}, p.path[:len(p.path)-1]...), base)}
		first := m.load(q)
		if fs, ok := first.(Scalar); ok {
			w := 8
			_ = fs
			elems := make([]Scalar, p.symN)
			for k := 0; k < p.symN; k++ {
				q.path[len(q.path)-1] = base + k
				elems[k] = m.load(q).(Scalar)
				if elems[k].sym != nil {
					w = elems[k].sym.w
				}
			}
			if w == 8 {
				// guess width from static info is unavailable here; use max constant magnitude
				for _, e := range elems {
					if e.sym == nil && e.c > 0xff {
						w = 64
					}
				}
			}
			return m.iteChain(p.sym, p.symN, func(k int) Scalar { return elems[k] }, w)
		}
		return m.load(m.symPtrConcrete(p))
	}
	c, i, whole := m.resolve(p)
	if whole != nil {
		return copyVal(whole.v)
	}
	return copyVal(elemOf(c, i))
}
func (m *Machine) checkWrite(o *Obj, what string, fr *frame) {
	if m.frozen && m.inInit == 0 && m.syncDepth == 0 && (o.id <= m.freezeBelow || o.global) {
		where := "?"
		if fr != nil {
			where = fr.fn.String()
		}
		nm := o.name
		if nm == "" {
			nm = fmt.Sprintf("object #%d", o.id)
		}
		m.addCandidate("write", "write to shared memory ("+nm+") in "+where, nil)
		m.stop("violation", "write to frozen object %s in %s", nm, where)
	}
}

func (m *Machine) store(p Ptr, v value) { m.storeFrom(nil, p, v) }

func (m *Machine) storeFrom(fr *frame, p Ptr, v value) {
	if p.obj != nil && m.frozen {
		m.checkWrite(p.obj, "store", fr)
	}
	if p.sym != nil {
		p = m.symPtrConcrete(p)
	}
	c, i, whole := m.resolve(p)
	if whole != nil {
		if !assignInPlace(whole.v, v) {
			whole.v = copyVal(v)
		}
		return
	}
	setElem(c, i, v)
}

func (m *Machine) global(g *ssa.Global) *Obj {
	if o, ok := m.globals[g]; ok {
		return o
	}
	o := m.newObj(zero(g.Type().(*types.Pointer).Elem()))
	o.global = true
	o.name = g.String()
	m.globals[g] = o
	// package os is not initialised (it talks to the runtime), but its error values are plain
	// aliases of io/fs values, which are
	if g.Pkg != nil && g.Pkg.Pkg.Path() == "os" {
		if fsName, ok := osErrAlias[g.Name()]; ok {
			if fp := m.prog.ImportedPackage("io/fs"); fp != nil {
				if fg, ok := fp.Members[fsName].(*ssa.Global); ok {
					m.ensureInit(fp)
					o.v = copyVal(m.global(fg).v)
				}
			}
		}
	}
	return o
}

var osErrAlias = map[string]string{"ErrInvalid": "ErrInvalid", "ErrPermission": "ErrPermission", "ErrExist": "ErrExist", "ErrNotExist": "ErrNotExist", "ErrClosed": "ErrClosed"}

var initDeny = map[string]bool{"runtime": true, "reflect": true, "sync": true, "os": true, "syscall": true, "time": true, "fmt": true, "internal/reflectlite": true, "sync/atomic": true, "internal/cpu": true, "internal/godebug": true, "internal/poll": true, "internal/testlog": true, "math/rand": true, "math/big": true, "crypto/sha256": true, "crypto/sha512": true, "crypto/sha1": true, "crypto/md5": true, "crypto": true, "hash/crc32": true, "encoding/json": true, "log": true, "testing": true, "internal/bytealg": true, "internal/abi": true, "internal/runtime/maps": true, "crypto/rand": true, "crypto/internal/fips140/sha256": true, "crypto/internal/fips140/sha512": true, "crypto/internal/fips140/sha3": true}

func deniedPkg(path string) bool {
	return initDeny[path] || strings.HasPrefix(path, "runtime/") || strings.HasPrefix(path, "internal/runtime") || strings.HasPrefix(path, "crypto/internal") || strings.HasPrefix(path, "vendor/") || strings.HasPrefix(path, "golang.org/x/sys")
}

func (m *Machine) ensureInit(pkg *ssa.Package) {
	if pkg == nil || m.inited[pkg] != 0 {
		return
	}
	m.inited[pkg] = 1
	path := pkg.Pkg.Path()
	if deniedPkg(path) {
		m.inited[pkg] = 2
		return
	}
	if os.Getenv("GOSX_DEBUG") != "" {
		fmt.Fprintln(os.Stderr, "INIT", path)
	}
	initFn := pkg.Func("init")
	if initFn != nil && len(initFn.Blocks) > 0 {
		func() {
			d := m.depth
			defer func() {
				if r := recover(); r != nil {
					m.depth = d
					if ps, ok := r.(*pathStop); ok && ps.kind == "inconclusive" && !strings.Contains(ps.msg, "time limit") {
						m.initAborted = append(m.initAborted, path+": "+ps.msg)
						return
					}
					if e, ok := r.(error); ok && strings.Contains(e.Error(), "Poison") {
						m.initAborted = append(m.initAborted, path+": "+e.Error())
						return
					}
					panic(r)
				}
			}()
			m.inInit++
			defer func() { m.inInit-- }()
			m.callSSA(nil, initFn, nil, nil)
		}()
	}
	m.inited[pkg] = 2
}

// ---------- frames ----------

func (fr *frame) get(v ssa.Value) value {
	switch v := v.(type) {
	case *ssa.Const:
		return fr.m.constVal(v)
	case *ssa.Global:
		fr.m.ensureInit(v.Pkg)
		return Ptr{obj: fr.m.global(v)}
	case *ssa.Function:
		return &Closure{fn: v}
	case *ssa.Builtin:
		return &Builtin{name: v.Name()}
	}
	if i, ok := fr.info.slots[v]; ok {
		return fr.env[i]
	}
	panic(fmt.Sprintf("get: no value for %T %s in %s", v, v.Name(), fr.fn))
}

func (m *Machine) constVal(c *ssa.Const) value {
	if c.Value == nil {
		return zero(c.Type())
	}
	t := c.Type().Underlying()
	if tp, ok := t.(*types.TypeParam); ok {
		_ = tp
		panic("typeparam const")
	}
	b, ok := t.(*types.Basic)
	if !ok {
		panic(fmt.Sprintf("const of type %v", c.Type()))
	}
	switch {
	case b.Info()&types.IsBoolean != 0:
		return boolS(constant.BoolVal(c.Value))
	case b.Info()&types.IsString != 0:
		return strOf(constant.StringVal(c.Value))
	case b.Info()&types.IsInteger != 0:
		w := widthOf(b)
		if b.Info()&types.IsUnsigned != 0 {
			u, _ := constant.Uint64Val(constant.ToInt(c.Value))
			return conc(w, u)
		}
		i, _ := constant.Int64Val(constant.ToInt(c.Value))
		return conc(w, uint64(i))
	case b.Info()&types.IsFloat != 0:
		f, _ := constant.Float64Val(c.Value)
		if b.Kind() == types.Float32 {
			return conc(32, uint64(f32bits(float32(f))))
		}
		return conc(64, f64bits(f))
	}
	panic(fmt.Sprintf("const kind %v", b))
}

func (m *Machine) callSSA(caller *frame, fn *ssa.Function, args []value, env []value) value {
	if fn.Pkg != nil {
		if fn.Synthetic == "package initializer" {
			pp := fn.Pkg.Pkg.Path()
			eager := strings.HasPrefix(pp, "github.com/ipld/go-ipld-prime") || strings.HasPrefix(pp, "github.com/multiformats/go-multihash/core")
			if deniedPkg(pp) || (caller != nil && !eager) {
				return nil // lazy init: dependencies are initialised on first touch
			}
			if caller != nil && eager {
				m.ensureInit(fn.Pkg)
				return nil
			}
		}
		m.ensureInit(fn.Pkg)
	}
	if m.run.Models != nil {
		if mn, ok := m.run.Models[fn.String()]; ok {
			if mf := m.run.Fn.Pkg.Func(mn); mf != nil {
				return m.callSSA(caller, mf, args, nil)
			}
			m.stop("inconclusive", "model function %s not found in harness package", mn)
		}
	}
	if h, ok := intrinsics[fn.String()]; ok {
		if r := h(m, caller, args); r != notHandled {
			return r
		}
	}
	if h, ok := reflectIntrinsics[fn.String()]; ok {
		return h(m, caller, args)
	}
	if fn.Origin() != nil {
		if h, ok := intrinsics[fn.Origin().String()]; ok {
			return h(m, caller, args)
		}
	}
	if len(fn.Blocks) == 0 || (fn.Pkg != nil && deniedPkg(fn.Pkg.Pkg.Path())) {
		// not interpreted: poison result
		res := fn.Signature.Results()
		why := Poison{"call to unmodelled " + fn.String()}
		switch res.Len() {
		case 0:
			return nil
		case 1:
			return why
		}
		t := make(Tuple, res.Len())
		for i := range t {
			t[i] = why
		}
		return t
	}
	m.depth++
	if m.depth > m.maxDepth {
		m.stop("unwind", "recursion depth limit in %s", fn)
	}
	defer func() { m.depth-- }()
	m.funcsHit[fn] = true
	fi := infoOf(fn)
	fr := &frame{m: m, fn: fn, caller: caller, env: make([]value, fi.n), info: fi, loopCnt: map[*ssa.BasicBlock]int{}}
	for i := range fn.Params {
		fr.env[i] = args[i]
	}
	np := len(fn.Params)
	for i := range fn.FreeVars {
		fr.env[np+i] = env[i]
	}
	fr.block = fn.Blocks[0]
	for fr.block != nil {
		fr.runBlocks()
	}
	return fr.result
}

// runBlocks executes until return or until a Go panic is fully handled.
func (fr *frame) runBlocks() {
	defer func() {
		if fr.block == nil {
			return
		}
		r := recover()
		if r == nil {
			return
		}
		gp, ok := r.(*goPanic)
		if !ok {
			panic(r)
		}
		// Go panic: run defers, maybe recover
		fr.panicking = gp
		fr.runDefers()
		if fr.panicking != nil {
			fr.block = nil
			panic(fr.panicking)
		}
		// recovered: continue at Recover block
		if fr.fn.Recover != nil {
			fr.block = fr.fn.Recover
		} else {
			fr.block = nil
			fr.result = fr.zeroResult()
		}
	}()
	for fr.block != nil {
		b := fr.block
		if len(b.Preds) > 1 || (len(b.Preds) == 1 && b.Index <= b.Preds[0].Index) {
			fr.loopCnt[b]++
			if fr.loopCnt[b] > fr.m.maxLoop {
				fr.m.stop("unwind", "loop bound exceeded in %s block %d", fr.fn, b.Index)
			}
		}
		var next *ssa.BasicBlock
		done := false
		for _, instr := range b.Instrs {
			fr.m.steps++
			if fr.m.steps&0x3fff == 0 {
				if fr.m.steps > fr.m.maxSteps {
					fr.m.stop("unwind", "step limit exceeded in %s", fr.fn)
				}
				if time.Now().After(fr.m.exp.deadline) {
					fr.m.stop("inconclusive", "time limit reached inside a path (in %s)", fr.fn)
				}
			}
			if fr.m.trace {
				fmt.Fprintf(os.Stderr, "%s\t%T %v\n", fr.fn.Name(), instr, instr)
			}
			switch in := instr.(type) {
			case *ssa.Jump:
				next = b.Succs[0]
			case *ssa.If:
				cv := fr.get(in.Cond)
				if p, ok := cv.(Poison); ok {
					fr.m.stop("inconclusive", "branch on poison: %s", p.why)
				}
				c := cv.(Scalar)
				var tk bool
				if c.sym == nil {
					tk = c.c != 0
				} else {
					tk = fr.m.branch(c.sym)
				}
				if tk {
					next = b.Succs[0]
				} else {
					next = b.Succs[1]
				}
			case *ssa.Return:
				switch len(in.Results) {
				case 0:
				case 1:
					fr.result = fr.get(in.Results[0])
				default:
					t := make(Tuple, len(in.Results))
					for i, r := range in.Results {
						t[i] = fr.get(r)
					}
					fr.result = t
				}
				done = true
			case *ssa.Panic:
				v := fr.get(in.X)
				panic(&goPanic{v: v, msg: fr.m.describePanic(v)})
			default:
				fr.exec(instr)
			}
			if next != nil || done {
				break
			}
		}
		if done {
			fr.block = nil
			return
		}
		fr.prev = b
		fr.block = next
	}
}

func (fr *frame) zeroResult() value {
	res := fr.fn.Signature.Results()
	switch res.Len() {
	case 0:
		return nil
	case 1:
		return zero(res.At(0).Type())
	}
	return zero(res)
}

func (fr *frame) runDefers() {
	for len(fr.defers) > 0 {
		d := fr.defers[len(fr.defers)-1]
		fr.defers = fr.defers[:len(fr.defers)-1]
		fr.m.callValue(fr, d.fn, d.args, nil)
	}
}

func (m *Machine) describePanic(v value) string {
	if i, ok := v.(Iface); ok {
		if s, ok := i.v.(*String); ok {
			return s.String()
		}
		if i.t != nil {
			return "panic value of type " + i.t.String()
		}
	}
	return fmt.Sprintf("%T", v)
}

// callValue calls any callable value.
func (m *Machine) callValue(caller *frame, fn value, args []value, site ssa.CallInstruction) value {
	switch f := fn.(type) {
	case *Closure:
		if f == nil {
			m.goPanicStr("runtime error: call of nil func")
		}
		return m.callSSA(caller, f.fn, args, f.env)
	case *Builtin:
		if f.name == "gosx:swap" {
			sl := f.data.(Slice)
			i, j := m.concLen(args[0].(Scalar), "swap i"), m.concLen(args[1].(Scalar), "swap j")
			x, y := copyVal(m.sliceElem(sl, i)), copyVal(m.sliceElem(sl, j))
			m.setSliceElem(sl, i, y)
			m.setSliceElem(sl, j, x)
			return nil
		}
		return m.callBuiltin(caller, f.name, args, site)
	case *BoundMethod:
		return m.invoke(caller, f.recv, f.name, f.pkg, args)
	}
	panic(fmt.Sprintf("callValue: %T", fn))
}

func (m *Machine) invoke(caller *frame, recv Iface, name string, pkg *types.Package, args []value) value {
	if recv.t == nil {
		m.goPanicStr("runtime error: invalid memory address or nil pointer dereference (nil interface method call " + name + ")")
	}
	if nat, ok := recv.v.(*Native); ok {
		return m.nativeMethod(caller, nat, name, args)
	}
	meth := m.prog.LookupMethod(recv.t, pkg, name)
	if meth == nil {
		// try with method set search ignoring pkg for exported
		ms := m.prog.MethodSets.MethodSet(recv.t)
		for i := 0; i < ms.Len(); i++ {
			if ms.At(i).Obj().Name() == name {
				meth = m.prog.MethodValue(ms.At(i))
				break
			}
		}
	}
	if meth == nil {
		panic(fmt.Sprintf("invoke: no method %s on %v", name, recv.t))
	}
	return m.callSSA(caller, meth, append([]value{recv.v}, args...), nil)
}

func (fr *frame) prepareCall(c *ssa.CallCommon) (fn value, args []value) {
	if c.IsInvoke() {
		recv := fr.get(c.Value).(Iface)
		args = make([]value, len(c.Args))
		for i, a := range c.Args {
			args[i] = fr.get(a)
		}
		return &BoundMethod{recv: recv, name: c.Method.Name(), pkg: c.Method.Pkg()}, args
	}
	fn = fr.get(c.Value)
	args = make([]value, len(c.Args))
	for i, a := range c.Args {
		args[i] = fr.get(a)
	}
	return fn, args
}

func (fr *frame) exec(instr ssa.Instruction) {
	m := fr.m
	switch in := instr.(type) {
	case *ssa.DebugRef:
	case *ssa.Alloc:
		et := in.Type().(*types.Pointer).Elem()
		if m.allocOn && in.Heap {
			m.account(conc(64, uint64(sizeOf(et))))
		}
		o := m.newObj(zero(et))
		fr.env[fr.info.slots[in]] = Ptr{obj: o}
	case *ssa.UnOp:
		fr.env[fr.info.slots[in]] = m.unop(fr, in)
	case *ssa.BinOp:
		fr.env[fr.info.slots[in]] = m.binop(in.Op, in.X.Type(), fr.get(in.X), fr.get(in.Y))
	case *ssa.Store:
		m.storeFrom(fr, fr.get(in.Addr).(Ptr), fr.get(in.Val))
	case *ssa.Phi:
		for i, p := range in.Block().Preds {
			if p == fr.prev {
				fr.env[fr.info.slots[in]] = fr.get(in.Edges[i])
				break
			}
		}
	case *ssa.Call:
		fn, args := fr.prepareCall(&in.Call)
		fr.env[fr.info.slots[in]] = m.callValue(fr, fn, args, in)
	case *ssa.Defer:
		fn, args := fr.prepareCall(&in.Call)
		fr.defers = append(fr.defers, &deferred{fn: fn, args: args, instr: in})
	case *ssa.RunDefers:
		fr.runDefers()
	case *ssa.Go:
		m.stop("inconclusive", "go statement")
	case *ssa.FieldAddr:
		p := fr.get(in.X).(Ptr)
		if p.sym != nil {
			p = m.symPtrConcrete(p)
		}
		if p.obj == nil {
			m.goPanicStr("runtime error: invalid memory address or nil pointer dereference")
		}
		np := make([]int, len(p.path)+1)
		copy(np, p.path)
		np[len(p.path)] = in.Field
		fr.env[fr.info.slots[in]] = Ptr{obj: p.obj, path: np}
	case *ssa.Field:
		fr.env[fr.info.slots[in]] = copyVal(fr.get(in.X).(Struct)[in.Field])
	case *ssa.IndexAddr:
		fr.env[fr.info.slots[in]] = m.indexAddr(fr.get(in.X), fr.get(in.Index).(Scalar), in.Index.Type())
	case *ssa.Index:
		fr.env[fr.info.slots[in]] = m.index(fr.get(in.X), fr.get(in.Index).(Scalar), in.Index.Type(), in.Type())
	case *ssa.Lookup:
		fr.env[fr.info.slots[in]] = m.lookup(in, fr.get(in.X), fr.get(in.Index))
	case *ssa.MapUpdate:
		mp := fr.get(in.Map).(*Map)
		if mp == nil {
			m.goPanicStr("assignment to entry in nil map")
		}
		if m.frozen && m.inInit == 0 && m.syncDepth == 0 && mp.id <= m.freezeBelow {
			m.addCandidate("write", "write to shared map in "+fr.fn.String(), nil)
			m.stop("violation", "write to frozen map in %s", fr.fn)
		}
		if m.allocOn {
			mt := in.Map.Type().Underlying().(*types.Map)
			m.account(conc(64, uint64(sizeOf(mt.Key())+sizeOf(mt.Elem())+8)))
		}
		m.mapSet(mp, fr.get(in.Key), fr.get(in.Value))
	case *ssa.MakeMap:
		if in.Reserve != nil {
			// make(map, hint): buckets for hint entries are allocated eagerly
			h := m.idx64(fr.get(in.Reserve).(Scalar), in.Reserve.Type())
			mt := in.Type().Underlying().(*types.Map)
			per := sizeOf(mt.Key()) + sizeOf(mt.Elem()) + 8
			if h.sym != nil {
				ok := tCmp("bvsle", h.sym, tConst(64, uint64(maxAllocBytes/per)))
				if !m.branch(ok) {
					m.goPanicStr("runtime error: make(map) with a size hint beyond available memory (size controlled by input)")
				}
				pos := tIte(tCmp("bvsgt", h.sym, tConst(64, 0)), h.sym, tConst(64, 0))
				m.account(fromTerm(tBV("bvmul", pos, tConst(64, uint64(per)))))
			} else if int64(h.c) > 0 {
				if int64(h.c) > maxAllocBytes/per {
					m.goPanicStr("runtime error: make(map) with a size hint beyond available memory")
				}
				m.account(conc(64, h.c*uint64(per)))
			}
		}
		m.objSeq++
		fr.env[fr.info.slots[in]] = &Map{id: m.objSeq}
	case *ssa.MakeSlice:
		fr.env[fr.info.slots[in]] = m.makeSlice(in.Type(), fr.get(in.Len).(Scalar), fr.get(in.Cap).(Scalar), in.Len.Type())
	case *ssa.MakeClosure:
		env := make([]value, len(in.Bindings))
		for i, b := range in.Bindings {
			env[i] = fr.get(b)
		}
		fr.env[fr.info.slots[in]] = &Closure{fn: in.Fn.(*ssa.Function), env: env}
	case *ssa.MakeInterface:
		fr.env[fr.info.slots[in]] = Iface{t: in.X.Type(), v: fr.get(in.X)}
	case *ssa.MakeChan:
		fr.env[fr.info.slots[in]] = &Native{kind: "chan"}
	case *ssa.ChangeType:
		fr.env[fr.info.slots[in]] = fr.get(in.X)
	case *ssa.ChangeInterface:
		fr.env[fr.info.slots[in]] = fr.get(in.X)
	case *ssa.Convert:
		fr.env[fr.info.slots[in]] = m.convert(in.X.Type(), in.Type(), fr.get(in.X))
	case *ssa.MultiConvert:
		fr.env[fr.info.slots[in]] = m.convert(in.X.Type(), in.Type(), fr.get(in.X))
	case *ssa.SliceToArrayPointer:
		s := fr.get(in.X).(Slice)
		fr.env[fr.info.slots[in]] = Ptr{obj: s.arr} // approximation: requires off==0
		if s.off != 0 {
			m.stop("inconclusive", "SliceToArrayPointer with offset")
		}
	case *ssa.Slice:
		fr.env[fr.info.slots[in]] = m.sliceOp(fr, in)
	case *ssa.Extract:
		fr.env[fr.info.slots[in]] = fr.get(in.Tuple).(Tuple)[in.Index]
	case *ssa.TypeAssert:
		fr.env[fr.info.slots[in]] = m.typeAssert(in, fr.get(in.X).(Iface))
	case *ssa.Range:
		x := fr.get(in.X)
		switch x := x.(type) {
		case *Map:
			it := &RangeIter{m: x}
			if x != nil {
				it.snapshot = append(it.snapshot, x.entries...)
			}
			fr.env[fr.info.slots[in]] = it
		case *String:
			fr.env[fr.info.slots[in]] = &RangeIter{s: x}
		default:
			panic("range over " + fmt.Sprintf("%T", x))
		}
	case *ssa.Next:
		fr.env[fr.info.slots[in]] = m.next(fr, in, fr.get(in.Iter).(*RangeIter))
	case *ssa.Send, *ssa.Select:
		m.stop("inconclusive", "channel op")
	default:
		panic(fmt.Sprintf("exec: unhandled instruction %T", instr))
	}
}

func (m *Machine) next(fr *frame, in *ssa.Next, it *RangeIter) value {
	if in.IsString {
		if it.pos >= len(it.s.b) {
			return Tuple{boolS(false), conc(64, 0), conc(32, 0)}
		}
		// decode rune using real utf8.DecodeRuneInString
		rest := &String{b: it.s.b[it.pos:]}
		b0 := rest.b[0]
		if b0.sym == nil && b0.c < 0x80 {
			p := it.pos
			it.pos++
			return Tuple{boolS(true), conc(64, uint64(p)), conc(32, b0.c)}
		}
		fn := m.prog.ImportedPackage("unicode/utf8").Func("DecodeRuneInString")
		r := m.callSSA(fr, fn, []value{rest}, nil).(Tuple)
		sz := r[1].(Scalar)
		if sz.sym != nil {
			sz = conc(64, uint64(m.concretize(sz.sym, 64, "rune size")))
		}
		p := it.pos
		it.pos += int(sz.c)
		return Tuple{boolS(true), conc(64, uint64(p)), r[0]}
	}
	for it.pos < len(it.snapshot) {
		e := it.snapshot[it.pos]
		it.pos++
		if e.dead {
			continue
		}
		return Tuple{boolS(true), e.k, copyVal(e.v)}
	}
	mt := in.Iter.(*ssa.Range).X.Type().Underlying().(*types.Map)
	return Tuple{boolS(false), zero(mt.Key()), zero(mt.Elem())}
}

func (m *Machine) typeAssert(in *ssa.TypeAssert, x Iface) value {
	var ok bool
	var res value
	if _, isIface := in.AssertedType.Underlying().(*types.Interface); isIface {
		if x.t != nil {
			if _, nat := x.v.(*Native); nat {
				ok = m.nativeImplements(x, in.AssertedType)
			} else {
				ok = types.Implements(x.t, in.AssertedType.Underlying().(*types.Interface))
			}
		}
		if ok {
			res = x
		} else {
			res = Iface{}
		}
	} else {
		ok = x.t != nil && types.Identical(x.t, in.AssertedType)
		if ok {
			res = x.v
		} else {
			res = zero(in.AssertedType)
		}
	}
	if in.CommaOk {
		return Tuple{res, boolS(ok)}
	}
	if !ok {
		m.goPanicStr(fmt.Sprintf("interface conversion: %v is not %v", x.t, in.AssertedType))
	}
	return res
}

var _ = token.ADD
