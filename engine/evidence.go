package main

import (
	"encoding/json"
	"fmt"
	"os"
	"path/filepath"
	"sort"
	"strings"
	"time"
)

type evHarness struct {
	Name          string           `json:"name"`
	Fn            string           `json:"fn"`
	Bounds        string           `json:"bounds"`
	Asserts       string           `json:"asserts,omitempty"`
	Params        map[string]int64 `json:"params"`
	Paths         int              `json:"paths"`
	Ends          map[string]int   `json:"path_ends"`
	Decisions     int64            `json:"decisions"`
	Obligations   int              `json:"obligations"`
	Discharged    int              `json:"discharged"`
	Undischarged  int              `json:"undischarged"`
	Queries       map[string]int   `json:"queries"`
	SolverS       float64          `json:"solver_s"`
	WallS         float64          `json:"wall_s"`
	Steps         int64            `json:"ssa_instructions_executed"`
	Funcs         int              `json:"functions_encoded"`
	Inconclusive  int              `json:"inconclusive_paths"`
	Unwind        int              `json:"unwinding_failures"`
	Uncertain     int              `json:"paths_with_unknown_branch_queries"`
	Aborted       string           `json:"aborted,omitempty"`
	Reach         map[string]int   `json:"reach"`
	Vacuous       []string         `json:"vacuous,omitempty"`
	Validated     int              `json:"paths_validated_natively"`
	ValMismatch   []string         `json:"validation_mismatches,omitempty"`
	Candidates    int              `json:"counterexample_candidates"`
	Reproduced    int              `json:"reproduced_natively"`
	NotReproduced int              `json:"not_reproduced"`
	Known         []string         `json:"known_findings_hit,omitempty"`
	Clean         bool             `json:"clean"`
	Twin          bool             `json:"twin,omitempty"`
	Notes         []string         `json:"notes,omitempty"`
}

func writeEvidence(o *options, pp *PlanProperty, ld *loaded, results []*harnessResult, violations int, wall time.Duration, allClean bool) {
	var hs []evHarness
	states, transitions, validated := int64(0), int64(0), 0
	obl, dis := 0, 0
	funcs := map[string]bool{}
	funcFiles := map[string]bool{}
	var samples []interface{}
	q := map[string]int{}
	solverS := 0.0
	paths := 0
	distinct := 0
	for _, hr := range results {
		e := hr.e
		h := evHarness{Name: hr.h.Name, Fn: hr.h.Pkg + "." + hr.h.Fn, Bounds: hr.h.Bounds, Asserts: hr.h.Asserts, Params: hr.run.Params, Paths: e.paths, Ends: e.ends, Decisions: e.decisions,
			Obligations: e.obligations, Discharged: e.discharged, Undischarged: e.undischarged,
			Queries: map[string]int{"total": e.queries, "sat": e.sat, "unsat": e.unsat, "unknown": e.unknown, "slower_than_1s": e.slow},
			SolverS: round2(e.solverDur.Seconds()), WallS: round2(e.wall.Seconds()), Steps: e.steps, Funcs: len(e.funcs), Inconclusive: e.ends["inconclusive"], Unwind: e.ends["unwind"],
			Uncertain: e.uncertain, Aborted: e.abort, Reach: e.reach, Vacuous: hr.vacuous, Validated: hr.validated, ValMismatch: hr.valMismatch, Candidates: len(e.cands),
			Reproduced: len(hr.reproduced), NotReproduced: len(hr.notReproduced), Clean: hr.clean, Twin: hr.h.Twin}
		for id := range e.known {
			h.Known = append(h.Known, id)
		}
		var ms []string
		for k, v := range e.msgs {
			ms = append(ms, fmt.Sprintf("[%d] %s", v, k))
		}
		sort.Strings(ms)
		if len(ms) > 8 {
			ms = ms[:8]
		}
		h.Notes = ms
		hs = append(hs, h)
		// decision tree: every path contributes the nodes beyond its replayed prefix
		states += e.decisions + int64(e.paths)
		transitions += e.decisions
		validated += hr.validated
		obl += e.obligations
		dis += e.discharged
		paths += e.paths
		distinct += e.ends["end"] + e.ends["violation"] + e.ends["panic"]
		for f := range e.funcs {
			name := f.String()
			funcs[name] = true
			if f.Pkg != nil && strings.HasPrefix(f.Pkg.Pkg.Path(), modPath) {
				if p := ld.prog.Fset.Position(f.Pos()); p.IsValid() {
					funcFiles[p.Filename] = true
				}
			}
		}
		for k, v := range h.Queries {
			q[k] += v
		}
		solverS += e.solverDur.Seconds()
		for i, s := range e.samples {
			if i >= 2 {
				break
			}
			samples = append(samples, map[string]interface{}{"harness": hr.h.Name, "kind": "completed path (model of its path condition, re-run natively)", "decisions": s.Prefix, "inputs": describeModel(s.Model), "observations": s.Obs, "reached": s.Reached})
		}
		for i, c := range e.cands {
			if i >= 2 {
				break
			}
			samples = append(samples, map[string]interface{}{"harness": hr.h.Name, "kind": "counterexample candidate: " + c.Kind, "label": c.Label, "inputs": describeModel(c.Model)})
		}
	}
	if len(samples) == 0 {
		for _, hr := range results {
			samples = append(samples, map[string]interface{}{"harness": hr.h.Name, "paths": hr.e.paths, "bounds": hr.h.Bounds})
		}
	}
	var fnames []string
	for f := range funcs {
		fnames = append(fnames, f)
	}
	sort.Strings(fnames)
	repoFuncs := 0
	byPkg := map[string]int{}
	for _, f := range fnames {
		pk := f
		if i := strings.LastIndex(f, "."); i > 0 {
			pk = f[:i]
		}
		pk = strings.TrimLeft(pk, "(*")
		if j := strings.LastIndex(pk, ")"); j > 0 {
			pk = pk[:j]
		}
		if i := strings.LastIndex(pk, "."); i > strings.LastIndex(pk, "/") {
			pk = pk[:i]
		}
		byPkg[pk]++
		if strings.Contains(f, modPath) && !strings.Contains(f, "zzverif") && !strings.Contains(f, "verifnd") {
			repoFuncs++
		}
	}
	srcHash := map[string]string{}
	var ffs []string
	for f := range funcFiles {
		ffs = append(ffs, f)
	}
	sort.Strings(ffs)
	for _, f := range ffs {
		if !strings.Contains(f, "zzverif") && !strings.Contains(f, "verifnd") && !strings.Contains(f, "zz_verif") {
			rel, _ := filepath.Rel(o.repo, f)
			srcHash[rel] = fileHash(f)
		}
	}
	repoFnList := []string{}
	for _, f := range fnames {
		if strings.Contains(f, modPath) && !strings.Contains(f, "zzverif") && !strings.Contains(f, "verifnd") {
			repoFnList = append(repoFnList, strings.ReplaceAll(f, modPath+"/", ""))
		}
	}
	if len(repoFnList) > 400 {
		repoFnList = append(repoFnList[:400], fmt.Sprintf("… and %d more", len(repoFnList)-400))
	}
	level := pp.Level
	if level == "" {
		level = "model_checking"
	}
	cov := map[string]interface{}{
		"states":                        states,
		"transitions":                   transitions,
		"traces_validated_against_impl": validated,
		"samples":                       samples,
		"evaluations":                   paths,
		"distinct_nontrivial":           distinct,
		"rule":                          "one evaluation = one explored path of the symbolic execution of the real code (a distinct decision string: symbolic branches, concretisations, map probes, nd.Choose); every path stands for all inputs satisfying its path condition; non-trivial = feasible path that ran to the end of the harness or to a violation (paths cut by an assumption are not counted)",
		"obligations":                   obl,
		"discharged":                    dis,
		"checker_cmd":                   fmt.Sprintf("./vcheck %s %s", o.prop, o.tier),
		"trusted_base":                  []string{"go/packages+go/types+go/ssa (front end)", "gosx interpreter and term layer (guarded by native re-execution of sampled paths and of every counterexample)", "z3 4.8.12", "models/stubs listed under stubs_used"},
		"explanation":                   "bounded symbolic execution of the real code of /repo (SSA regenerated from the working tree on this run) with an SMT solver deciding every branch and every assertion for all values of the symbolic inputs inside the stated bounds; states = decision-tree nodes, transitions = decisions",
		"exhaustive":                    allClean,
		"harnesses":                     hs,
		"functions_encoded_total":       len(fnames),
		"functions_encoded_repo":        repoFuncs,
		"functions_encoded_by_package":  byPkg,
		"functions_encoded_repo_list":   repoFnList,
		"repo_source_files_hash":        srcHash,
		"queries":                       q,
		"solver_s":                      round2(solverS),
		"encoding_regenerated_s":        round2(ld.durS),
		"stubs_used":                    pp.Stubs,
		"outside_the_claim":             pp.Outside,
		"all_harnesses_clean":           allClean,
	}
	ev := map[string]interface{}{
		"property_id": o.prop,
		"tier":        o.tier,
		"seed":        o.seed,
		"level":       level,
		"coverage":    cov,
		"assumptions": append(append([]string{}, pp.Assumptions...), "bounds per harness are listed in coverage.harnesses[].bounds; nothing is claimed outside them"),
		"wall_s":      round2(wall.Seconds()),
		"violations":  violations,
	}
	b, _ := json.MarshalIndent(ev, "", " ")
	os.MkdirAll(filepath.Join(o.verif, "evidence"), 0o755)
	if err := os.WriteFile(filepath.Join(o.verif, "evidence", o.prop+".json"), b, 0o644); err != nil {
		fatal("%v", err)
	}
}

func round2(f float64) float64 { return float64(int64(f*100)) / 100 }
