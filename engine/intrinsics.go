package main

import (
	"fmt"
	"go/types"
	"math"

	"golang.org/x/tools/go/ssa"
)

type intrinsic func(m *Machine, caller *frame, args []value) value

// notHandled: returned by an intrinsic that declines (e.g. concrete arguments): the real
// function is interpreted instead.
var notHandled value = &Native{kind: "not-handled"}

var intrinsics map[string]intrinsic

const ndPkg = "github.com/ipld/go-ipld-prime/internal/verifnd."

func (m *Machine) freshName(base string) string {
	n := m.varSeq[base]
	m.varSeq[base] = n + 1
	if n == 0 {
		return base
	}
	return fmt.Sprintf("%s!%d", base, n)
}

func argStr(v value) string {
	s, _ := v.(*String).concrete()
	return s
}

func (m *Machine) errorValue(msg string, wrapped value) value {
	return Iface{t: errT, v: &Native{kind: "error", data: &nativeErr{msg: msg, wrapped: wrapped}}}
}

type nativeErr struct {
	msg     string
	wrapped value
}

var errT types.Type = types.Universe.Lookup("error").Type()

func init() {
	intrinsics = map[string]intrinsic{
		ndPkg + "Param": func(m *Machine, c *frame, a []value) value {
			if v, ok := m.run.Params[argStr(a[0])]; ok {
				return conc(64, uint64(v))
			}
			return a[1]
		},
		ndPkg + "Bytes": func(m *Machine, c *frame, a []value) value {
			name := m.freshName(argStr(a[0]))
			n := m.concLen(a[1].(Scalar), "nd.Bytes len")
			arr := make(Array, n)
			for i := range arr {
				arr[i] = Scalar{sym: tVar(fmt.Sprintf("%s_%d", name, i), 8)}
			}
			return Slice{arr: m.newObj(arr), len: conc(64, uint64(n)), cap: conc(64, uint64(n))}
		},
		ndPkg + "String": func(m *Machine, c *frame, a []value) value {
			name := m.freshName(argStr(a[0]))
			n := m.concLen(a[1].(Scalar), "nd.String len")
			b := make([]Scalar, n)
			for i := range b {
				b[i] = Scalar{sym: tVar(fmt.Sprintf("%s_%d", name, i), 8)}
			}
			return &String{b: b}
		},
		ndPkg + "Int64":       func(m *Machine, c *frame, a []value) value { return Scalar{sym: tVar(m.freshName(argStr(a[0])), 64)} },
		ndPkg + "Uint64":      func(m *Machine, c *frame, a []value) value { return Scalar{sym: tVar(m.freshName(argStr(a[0])), 64)} },
		ndPkg + "Int":         func(m *Machine, c *frame, a []value) value { return Scalar{sym: tVar(m.freshName(argStr(a[0])), 64)} },
		ndPkg + "Float64bits": func(m *Machine, c *frame, a []value) value { return Scalar{sym: tVar(m.freshName(argStr(a[0])), 64)} },
		ndPkg + "Byte":        func(m *Machine, c *frame, a []value) value { return Scalar{sym: tVar(m.freshName(argStr(a[0])), 8)} },
		ndPkg + "Bool":        func(m *Machine, c *frame, a []value) value { return Scalar{sym: tVar(m.freshName(argStr(a[0])), 0)} },
		ndPkg + "Choose": func(m *Machine, c *frame, a []value) value {
			name := m.freshName(argStr(a[0]))
			n := m.concLen(a[1].(Scalar), "choose n")
			v := m.choose(n)
			m.chooses["choose:"+name] = uint64(v)
			return conc(64, uint64(v))
		},
		ndPkg + "Assume": func(m *Machine, c *frame, a []value) value {
			m.assume(m.boolTerm(a[0], "Assume"))
			return nil
		},
		ndPkg + "Assert": func(m *Machine, c *frame, a []value) value {
			m.assert(m.boolTerm(a[0], "Assert "+argStr(a[1])), argStr(a[1]))
			return nil
		},
		ndPkg + "KnownFinding": func(m *Machine, c *frame, a []value) value {
			id := argStr(a[0])
			if !m.run.Known[id] {
				return nil
			}
			cond := m.boolTerm(a[1], "KnownFinding")
			if cond.isFalse() {
				return nil
			}
			r := "sat"
			var model map[string]uint64
			if !cond.isTrue() {
				r, model, _ = m.solver.model(m.pc, []*Term{cond}, nil)
			} else {
				r, model, _ = m.solver.model(m.pc, nil, nil)
			}
			if r == "sat" {
				for k, v := range m.chooses {
					model[k] = v
				}
				m.exp.mu.Lock()
				h := m.exp.known[id]
				if h == nil {
					h = &KnownHit{ID: id, Model: model}
					m.exp.known[id] = h
				}
				h.Count++
				m.exp.mu.Unlock()
			} else if r == "unknown" {
				m.uncertain = true
			}
			m.assume(tNot(cond))
			return nil
		},
		ndPkg + "AllocStart": func(m *Machine, c *frame, a []value) value {
			m.allocOn = true
			m.allocBytes = conc(64, 0)
			return nil
		},
		ndPkg + "AllocBytes": func(m *Machine, c *frame, a []value) value { return m.allocBytes },
		ndPkg + "Concurrent": func(m *Machine, c *frame, a []value) value {
			m.callValue(c, a[0], nil, nil)
			return nil
		},
		ndPkg + "Note": func(m *Machine, c *frame, a []value) value { return nil },
		ndPkg + "Go": func(m *Machine, c *frame, a []value) value {
			m.goThread(a[0])
			return nil
		},
		ndPkg + "Yield": func(m *Machine, c *frame, a []value) value {
			m.yield()
			return nil
		},
		ndPkg + "WaitAll": func(m *Machine, c *frame, a []value) value {
			m.waitAll()
			return nil
		},
		ndPkg + "Freeze": func(m *Machine, c *frame, a []value) value {
			m.freezeBelow = m.objSeq
			m.frozen = true
			return nil
		},
		ndPkg + "Thaw": func(m *Machine, c *frame, a []value) value {
			m.frozen = false
			return nil
		},
		ndPkg + "Reach": func(m *Machine, c *frame, a []value) value {
			m.reached = append(m.reached, argStr(a[0]))
			return nil
		},
		ndPkg + "EqBytes": func(m *Machine, c *frame, a []value) value {
			x, y := a[0].(Slice), a[1].(Slice)
			if x.len.sym != nil || y.len.sym != nil {
				lenEq := tEq(x.len.term(64), y.len.term(64))
				if !m.branch(lenEq) {
					return boolS(false)
				}
			} else if x.len.c != y.len.c {
				return boolS(false)
			}
			n := m.concLen(x.len, "EqBytes len")
			r := tBool(true)
			for i := 0; i < n; i++ {
				r = tAnd(r, tEq(m.sliceElem(x, i).(Scalar).term(8), m.sliceElem(y, i).(Scalar).term(8)))
			}
			return fromTerm(r)
		},
		ndPkg + "And": func(m *Machine, c *frame, a []value) value {
			return fromTerm(tAnd(m.boolTerm(a[0], "And"), m.boolTerm(a[1], "And")))
		},
		ndPkg + "Or": func(m *Machine, c *frame, a []value) value {
			return fromTerm(tOr(m.boolTerm(a[0], "Or"), m.boolTerm(a[1], "Or")))
		},
		ndPkg + "Implies": func(m *Machine, c *frame, a []value) value {
			return fromTerm(tOr(tNot(m.boolTerm(a[0], "Implies")), m.boolTerm(a[1], "Implies")))
		},
		ndPkg + "Iff": func(m *Machine, c *frame, a []value) value {
			return fromTerm(tNot(mkXor(m.boolTerm(a[0], "Iff"), m.boolTerm(a[1], "Iff"))))
		},
		ndPkg + "IteInt": func(m *Machine, c *frame, a []value) value {
			return fromTerm(tIte(m.boolTerm(a[0], "Ite"), m.scalarArg(a[1], "Ite").term(64), m.scalarArg(a[2], "Ite").term(64)))
		},
		ndPkg + "IteByte": func(m *Machine, c *frame, a []value) value {
			return fromTerm(tIte(m.boolTerm(a[0], "Ite"), m.scalarArg(a[1], "Ite").term(8), m.scalarArg(a[2], "Ite").term(8)))
		},
		ndPkg + "IteBool": func(m *Machine, c *frame, a []value) value {
			return fromTerm(tIte(m.boolTerm(a[0], "Ite"), m.boolTerm(a[1], "Ite"), m.boolTerm(a[2], "Ite")))
		},
		ndPkg + "ObserveInt": func(m *Machine, c *frame, a []value) value {
			m.obs = append(m.obs, obsEntry{name: argStr(a[0]), kind: "int", vals: []Scalar{m.scalarArg(a[1], "ObserveInt")}})
			return nil
		},
		ndPkg + "ObserveBool": func(m *Machine, c *frame, a []value) value {
			m.obs = append(m.obs, obsEntry{name: argStr(a[0]), kind: "bool", vals: []Scalar{m.scalarArg(a[1], "ObserveBool")}})
			return nil
		},
		ndPkg + "ObserveBytes": func(m *Machine, c *frame, a []value) value {
			sl := a[1].(Slice)
			n := m.concLen(sl.len, "ObserveBytes len")
			vs := make([]Scalar, n)
			for i := range vs {
				vs[i] = m.sliceElem(sl, i).(Scalar)
			}
			m.obs = append(m.obs, obsEntry{name: argStr(a[0]), kind: "bytes", vals: vs})
			return nil
		},
		ndPkg + "ObserveString": func(m *Machine, c *frame, a []value) value {
			m.obs = append(m.obs, obsEntry{name: argStr(a[0]), kind: "bytes", vals: append([]Scalar{}, a[1].(*String).b...)})
			return nil
		},
		"fmt.Errorf": func(m *Machine, c *frame, a []value) value {
			f, _ := a[0].(*String).concrete()
			var wrapped value
			if sl, ok := a[1].(Slice); ok && sl.arr != nil {
				n := m.concLen(sl.len, "errorf args")
				for i := 0; i < n; i++ {
					if e, ok := m.sliceElem(sl, i).(Iface); ok && e.t != nil && types.Implements(e.t, errT.Underlying().(*types.Interface)) {
						wrapped = e
					}
				}
			}
			return m.errorValue("fmt.Errorf:"+f, wrapped)
		},
		"fmt.Sprintf": func(m *Machine, c *frame, a []value) value {
			f, _ := a[0].(*String).concrete()
			if args, ok := m.goArgs(a[1]); ok {
				return strOf(fmt.Sprintf(f, args...))
			}
			return strOf("fmt.Sprintf:" + f)
		},
		"fmt.Sprint": func(m *Machine, c *frame, a []value) value {
			if args, ok := m.goArgs(a[0]); ok {
				return strOf(fmt.Sprint(args...))
			}
			return strOf("fmt.Sprint")
		},
		"internal/reflectlite.TypeOf": func(m *Machine, c *frame, a []value) value { return Iface{t: errT, v: &Native{kind: "rtype"}} },
		"math.Float64frombits":        func(m *Machine, c *frame, a []value) value { return a[0] },
		"math.Float64bits":            func(m *Machine, c *frame, a []value) value { return a[0] },
		"math.Float32frombits":        func(m *Machine, c *frame, a []value) value { return a[0] },
		"math.Float32bits":            func(m *Machine, c *frame, a []value) value { return a[0] },
		"math.archTrunc":              floatFn(math.Trunc), "math.archFloor": floatFn(math.Floor), "math.archCeil": floatFn(math.Ceil), "math.archSqrt": floatFn(math.Sqrt),
		"math.sqrt": floatFn(math.Sqrt), "math.archLog": floatFn(math.Log), "math.archExp": floatFn(math.Exp), "math.Trunc": floatFn(math.Trunc), "math.Floor": floatFn(math.Floor), "math.Ceil": floatFn(math.Ceil),
		"math.Sqrt": floatFn(math.Sqrt), "math.Log": floatFn(math.Log), "math.Exp": floatFn(math.Exp), "math.Log2": floatFn(math.Log2), "math.Log10": floatFn(math.Log10),
		"math.Abs": func(m *Machine, c *frame, a []value) value {
			s := a[0].(Scalar)
			if s.sym == nil {
				return conc(64, s.c&^(1<<63))
			}
			return fromTerm(tBV("bvand", s.sym, tConst(64, math.MaxInt64)))
		},
		"strconv.FormatInt": func(m *Machine, c *frame, a []value) value {
			return m.formatDecimal(a[0], a[1], true)
		},
		"strconv.FormatUint": func(m *Machine, c *frame, a []value) value {
			return m.formatDecimal(a[0], a[1], false)
		},
		"strconv.Itoa": func(m *Machine, c *frame, a []value) value {
			return m.formatDecimal(a[0], conc(64, 10), true)
		},
		"strconv.AppendInt": func(m *Machine, c *frame, a []value) value {
			s := m.formatDecimal(a[1], a[2], true)
			if s == notHandled {
				return s
			}
			return m.appendOp(a[0].(Slice), s, byteAppendSite{})
		},
		"strconv.AppendUint": func(m *Machine, c *frame, a []value) value {
			s := m.formatDecimal(a[1], a[2], false)
			if s == notHandled {
				return s
			}
			return m.appendOp(a[0].(Slice), s, byteAppendSite{})
		},
		// sync.Pool: a per-pool LIFO of the values put back (what one goroutine that is not
		// descheduled observes natively); New is called when it is empty
		"(*sync.Pool).Get": func(m *Machine, c *frame, a []value) value {
			p := a[0].(Ptr)
			k := poolKey(p)
			if st := m.pools[k]; len(st) > 0 {
				v := st[len(st)-1]
				m.pools[k] = st[:len(st)-1]
				return v
			}
			pv := m.load(p).(Struct)
			for _, f := range pv {
				if cl, ok := f.(*Closure); ok && cl != nil {
					return m.callValue(c, cl, nil, nil)
				}
			}
			return Iface{}
		},
		"(*sync.Pool).Put": func(m *Machine, c *frame, a []value) value {
			if x, ok := a[1].(Iface); ok && x.t == nil {
				return nil
			}
			if m.pools == nil {
				m.pools = map[string][]value{}
			}
			k := poolKey(a[0].(Ptr))
			m.pools[k] = append(m.pools[k], a[1])
			return nil
		},
		// sync.Map: an engine map keyed by the receiver's address (single-threaded semantics;
		// interleavings inside sync.Map operations are outside the model)
		"(*sync.Map).Load": func(m *Machine, c *frame, a []value) value {
			if e := m.mapFind(m.syncMap(a[0].(Ptr)), a[1]); e != nil {
				return Tuple{copyVal(e.v), boolS(true)}
			}
			return Tuple{Iface{}, boolS(false)}
		},
		"(*sync.Map).Store": func(m *Machine, c *frame, a []value) value {
			m.mapSet(m.syncMap(a[0].(Ptr)), a[1], a[2])
			return nil
		},
		"(*sync.Map).LoadOrStore": func(m *Machine, c *frame, a []value) value {
			mp := m.syncMap(a[0].(Ptr))
			if e := m.mapFind(mp, a[1]); e != nil {
				return Tuple{copyVal(e.v), boolS(true)}
			}
			mp.entries = append(mp.entries, &mapEntry{k: a[1], v: copyVal(a[2])})
			return Tuple{a[2], boolS(false)}
		},
		"(*sync.Map).LoadAndDelete": func(m *Machine, c *frame, a []value) value {
			if e := m.mapFind(m.syncMap(a[0].(Ptr)), a[1]); e != nil {
				e.dead = true
				return Tuple{copyVal(e.v), boolS(true)}
			}
			return Tuple{Iface{}, boolS(false)}
		},
		"(*sync.Map).Delete": func(m *Machine, c *frame, a []value) value {
			if e := m.mapFind(m.syncMap(a[0].(Ptr)), a[1]); e != nil {
				e.dead = true
			}
			return nil
		},
		"(*sync.Map).Range": func(m *Machine, c *frame, a []value) value {
			mp := m.syncMap(a[0].(Ptr))
			for _, e := range append([]*mapEntry{}, mp.entries...) {
				if e.dead {
					continue
				}
				if r := m.callValue(c, a[1], []value{e.k, copyVal(e.v)}, nil).(Scalar); r.sym == nil && r.c == 0 {
					break
				}
			}
			return nil
		},
		// errors.Is / errors.As: the documented algorithm over the chain of Unwrap, with Is/As
		// methods honoured; types are compared as go/types (no reflectlite)
		"errors.Is": func(m *Machine, c *frame, a []value) value {
			target := a[1].(Iface)
			var walk func(e Iface) bool
			walk = func(e Iface) bool {
				for e.t != nil {
					if target.t != nil && types.Comparable(target.t) || target.t == nil {
						if eq := m.ifaceEq(e, target); eq.isTrue() || (!eq.isFalse() && m.branch(eq)) {
							return true
						}
					}
					if m.hasMethod(e, "Is") {
						if r := m.invoke(c, e, "Is", nil, []value{target}).(Scalar); r.sym == nil && r.c != 0 || r.sym != nil && m.branch(r.sym) {
							return true
						}
					}
					next, many := m.unwrapErr(c, e)
					for _, x := range many {
						if walk(x) {
							return true
						}
					}
					e = next
				}
				return false
			}
			return boolS(walk(a[0].(Iface)))
		},
		"errors.As": func(m *Machine, c *frame, a []value) value {
			tgt := a[1].(Iface)
			if tgt.t == nil {
				m.goPanicStr("errors: target cannot be nil")
			}
			pt, ok := tgt.t.Underlying().(*types.Pointer)
			if !ok {
				m.goPanicStr("errors: target must be a non-nil pointer")
			}
			T := pt.Elem()
			_, tIsIface := T.Underlying().(*types.Interface)
			var walk func(e Iface) bool
			walk = func(e Iface) bool {
				for e.t != nil {
					if _, nat := e.v.(*Native); !nat && types.AssignableTo(e.t, T) {
						if tIsIface {
							m.store(tgt.v.(Ptr), e)
						} else {
							m.store(tgt.v.(Ptr), copyVal(e.v))
						}
						return true
					}
					if m.hasMethod(e, "As") {
						if r := m.invoke(c, e, "As", nil, []value{tgt}).(Scalar); r.sym == nil && r.c != 0 || r.sym != nil && m.branch(r.sym) {
							return true
						}
					}
					next, many := m.unwrapErr(c, e)
					for _, x := range many {
						if walk(x) {
							return true
						}
					}
					e = next
				}
				return false
			}
			return boolS(walk(a[0].(Iface)))
		},
		"errors.Unwrap": func(m *Machine, c *frame, a []value) value {
			e := a[0].(Iface)
			if e.t == nil {
				return Iface{}
			}
			next, _ := m.unwrapErr(c, e)
			return next
		},
		"(*sync.Once).Do": func(m *Machine, c *frame, a []value) value {
			if m.pools == nil {
				m.pools = map[string][]value{}
			}
			k := "once:" + poolKey(a[0].(Ptr))
			if len(m.pools[k]) > 0 {
				return nil
			}
			m.pools[k] = []value{true}
			m.callValue(c, a[1], nil, nil)
			return nil
		},
		"sort.SliceStable": func(m *Machine, c *frame, a []value) value {
			// a stable sort has a unique result (for a strict weak order): insertion sort computes it
			sl := a[0].(Iface).v.(Slice)
			less := a[1]
			n := m.concLen(sl.len, "sort.SliceStable len")
			for i := 1; i < n; i++ {
				for j := i; j > 0; j-- {
					r := m.callValue(c, less, []value{conc(64, uint64(j)), conc(64, uint64(j-1))}, nil).(Scalar)
					var lt bool
					if r.sym == nil {
						lt = r.c != 0
					} else {
						lt = m.branch(r.sym)
					}
					if !lt {
						break
					}
					x, y := copyVal(m.sliceElem(sl, j)), copyVal(m.sliceElem(sl, j-1))
					m.setSliceElem(sl, j, y)
					m.setSliceElem(sl, j-1, x)
				}
			}
			return nil
		},
		"sort.Slice": func(m *Machine, c *frame, a []value) value {
			// insertion sort, exactly what sort.Slice does for n <= 12
			sl := a[0].(Iface).v.(Slice)
			less := a[1]
			n := m.concLen(sl.len, "sort.Slice len")
			if n > 12 {
				// beyond insertion sort: run the real pattern-defeating quicksort of package sort
				// with a swap function over the executor's slice
				sp := m.prog.ImportedPackage("sort")
				if sp == nil || sp.Func("pdqsort_func") == nil {
					m.stop("inconclusive", "sort.Slice: package sort not loaded")
				}
				m.ensureInit(sp)
				swap := &Builtin{name: "gosx:swap", data: sl}
				limit := 0
				for x := n; x > 0; x >>= 1 {
					limit++
				}
				m.callSSA(c, sp.Func("pdqsort_func"), []value{Struct{less, swap}, conc(64, 0), conc(64, uint64(n)), conc(64, uint64(limit))}, nil)
				return nil
			}
			for i := 1; i < n; i++ {
				for j := i; j > 0; j-- {
					r := m.callValue(c, less, []value{conc(64, uint64(j)), conc(64, uint64(j-1))}, nil).(Scalar)
					var lt bool
					if r.sym == nil {
						lt = r.c != 0
					} else {
						lt = m.branch(r.sym)
					}
					if !lt {
						break
					}
					x, y := copyVal(m.sliceElem(sl, j)), copyVal(m.sliceElem(sl, j-1))
					m.setSliceElem(sl, j, y)
					m.setSliceElem(sl, j-1, x)
				}
			}
			return nil
		},
		"internal/bytealg.MakeNoZero": func(m *Machine, c *frame, a []value) value {
			n := m.concLen(a[0].(Scalar), "MakeNoZero")
			arr := make(Array, n)
			for i := range arr {
				arr[i] = Scalar{}
			}
			return Slice{arr: m.newObj(arr), len: conc(64, uint64(n)), cap: conc(64, uint64(n))}
		},
		"internal/bytealg.IndexByteString": func(m *Machine, c *frame, a []value) value {
			s := a[0].(*String)
			ch := a[1].(Scalar)
			for i, b := range s.b {
				eq := tEq(b.term(8), ch.term(8))
				if eq.isTrue() || (!eq.isFalse() && m.branch(eq)) {
					return conc(64, uint64(i))
				}
			}
			return conc(64, ^uint64(0))
		},
		"internal/bytealg.IndexByte": func(m *Machine, c *frame, a []value) value {
			sl := a[0].(Slice)
			ch := a[1].(Scalar)
			n := m.concLen(sl.len, "IndexByte len")
			for i := 0; i < n; i++ {
				eq := tEq(m.sliceElem(sl, i).(Scalar).term(8), ch.term(8))
				if eq.isTrue() || (!eq.isFalse() && m.branch(eq)) {
					return conc(64, uint64(i))
				}
			}
			return conc(64, ^uint64(0))
		},
		"internal/bytealg.CountString": func(m *Machine, c *frame, a []value) value {
			return countBytes(a[0].(*String).b, a[1].(Scalar))
		},
		"internal/bytealg.Count": func(m *Machine, c *frame, a []value) value {
			sl := a[0].(Slice)
			n := m.concLen(sl.len, "Count len")
			bs := make([]Scalar, n)
			for k := range bs {
				bs[k] = m.sliceElem(sl, k).(Scalar)
			}
			return countBytes(bs, a[1].(Scalar))
		},
		"internal/abi.NoEscape": func(m *Machine, c *frame, a []value) value { return a[0] },
		"internal/abi.Escape":   func(m *Machine, c *frame, a []value) value { return a[0] },
		"unsafe.String":         nil,
	}
	delete(intrinsics, "unsafe.String")
}

func (m *Machine) nativeImplements(x Iface, t types.Type) bool {
	nat := x.v.(*Native)
	if nat.kind == "error" {
		it := t.Underlying().(*types.Interface)
		for i := 0; i < it.NumMethods(); i++ {
			switch it.Method(i).Name() {
			case "Error", "Unwrap":
			default:
				return false
			}
		}
		return true
	}
	return false
}

func (m *Machine) nativeMethod(caller *frame, nat *Native, name string, args []value) value {
	switch nat.kind {
	case "error":
		e := nat.data.(*nativeErr)
		switch name {
		case "Error":
			return strOf(e.msg)
		case "Unwrap":
			if e.wrapped == nil {
				return Iface{}
			}
			return e.wrapped
		}
	case "rtype":
		if t, ok := nat.data.(types.Type); ok {
			return m.rtypeMethod(t, name, args)
		}
		switch name {
		case "Elem":
			return Iface{t: errT, v: nat}
		}
	}
	m.stop("inconclusive", "native method %s.%s", nat.kind, name)
	return nil
}

func (m *Machine) boolTerm(v value, what string) *Term {
	if p, ok := v.(Poison); ok {
		m.stop("inconclusive", "%s on poison: %s", what, p.why)
	}
	return v.(Scalar).term(0)
}

func (m *Machine) scalarArg(v value, what string) Scalar {
	if p, ok := v.(Poison); ok {
		m.stop("inconclusive", "%s on poison: %s", what, p.why)
	}
	return v.(Scalar)
}

// assert discharges the obligation pc => cond, or records a counterexample candidate.
func (m *Machine) assert(cond *Term, msg string) {
	m.obligations++
	if cond.isTrue() {
		m.discharged++
		return
	}
	neg := tNot(cond)
	r := "sat"
	if !cond.isFalse() {
		r, _ = m.solver.check(m.pc, []*Term{neg}, nil)
	}
	switch r {
	case "unsat":
		m.discharged++
	case "sat":
		if m.run.NeedPanic {
			m.stop("violation", "assert %s", msg)
		}
		m.addCandidate("assert", msg, neg)
		if cond.isFalse() {
			m.stop("violation", "assert %s", msg)
		}
		if r2, _ := m.solver.check(m.pc, []*Term{cond}, nil); r2 == "unsat" {
			m.stop("violation", "assert %s", msg)
		}
	default:
		m.undischarged++
		m.uncertain = true
	}
	m.pc = append(m.pc, cond)
}

// goArgs converts a []interface{} of concrete basic values to host values (for formatting).
func (m *Machine) goArgs(v value) ([]interface{}, bool) {
	sl, ok := v.(Slice)
	if !ok {
		return nil, false
	}
	if sl.arr == nil {
		return nil, true
	}
	if sl.len.sym != nil {
		return nil, false
	}
	var out []interface{}
	for i := 0; i < int(sl.len.c); i++ {
		e, ok := m.sliceElem(sl, i).(Iface)
		if !ok || e.t == nil {
			return nil, false
		}
		switch x := e.v.(type) {
		case *String:
			s, ok := x.concrete()
			if !ok {
				return nil, false
			}
			out = append(out, s)
		case Scalar:
			if x.sym != nil {
				return nil, false
			}
			b, ok := e.t.Underlying().(*types.Basic)
			if !ok {
				return nil, false
			}
			switch {
			case b.Info()&types.IsBoolean != 0:
				out = append(out, x.c != 0)
			case b.Info()&types.IsUnsigned != 0:
				out = append(out, x.c)
			case b.Info()&types.IsInteger != 0:
				out = append(out, sx(x.c, widthOf(b)))
			default:
				return nil, false
			}
		default:
			return nil, false
		}
	}
	return out, true
}

// floatFn: a float64 -> float64 library function on concrete values; symbolic floats are unsupported.
func floatFn(f func(float64) float64) intrinsic {
	return func(m *Machine, c *frame, a []value) value {
		s, ok := a[0].(Scalar)
		if !ok || s.sym != nil {
			return Poison{"float function on symbolic value"}
		}
		return conc(64, math.Float64bits(f(math.Float64frombits(s.c))))
	}
}

var pow10 = func() [20]uint64 {
	var p [20]uint64
	p[0] = 1
	for i := 1; i < 20; i++ {
		p[i] = p[i-1] * 10
	}
	return p
}()

// formatDecimal is an exact summary of strconv.FormatInt/FormatUint(v, 10) for a symbolic v: the
// path forks on sign and digit count; the digits are fresh byte variables d_j in 0..9 with
// sum d_j*10^j = |v| (a unique solution, so nothing is over-approximated; no division).
func (m *Machine) formatDecimal(vv, basev value, signed bool) value {
	v, ok := vv.(Scalar)
	b, ok2 := basev.(Scalar)
	if !ok || !ok2 || v.sym == nil || b.sym != nil || b.c != 10 {
		return notHandled
	}
	t := v.sym
	neg := false
	mag := t
	if signed {
		if m.branch(tCmp("bvslt", t, tConst(64, 0))) {
			neg = true
			mag = tBvNeg(t)
		}
	}
	k := 20
	for d := 1; d < 20; d++ {
		if m.branch(tCmp("bvult", mag, tConst(64, pow10[d]))) {
			k = d
			break
		}
	}
	name := m.freshName("fmtdec")
	// do the arithmetic at the narrowest width that holds 10^k - 1 (mag < 10^k on this path)
	W := 64
	switch {
	case k <= 2:
		W = 8
	case k <= 4:
		W = 16
	case k <= 9:
		W = 32
	}
	if W < 64 {
		mag = tExtract(W-1, 0, mag)
	}
	sum := tConst(W, 0)
	digits := make([]Scalar, k)
	for j := 0; j < k; j++ {
		d := tVar(fmt.Sprintf("%s_d%d", name, j), 8)
		m.pc = append(m.pc, tCmp("bvule", d, tConst(8, 9)))
		sum = tBV("bvadd", sum, tBV("bvmul", tZext(d, W), tConst(W, pow10[j])))
		digits[k-1-j] = fromTerm(tBV("bvadd", d, tConst(8, '0')))
	}
	m.pc = append(m.pc, tEq(sum, mag))
	if k > 1 {
		m.pc = append(m.pc, tNot(tEq(digits[0].sym, tConst(8, '0'))))
	}
	if k == 20 { // 10^19 <= v < 2^64 < 2*10^19: without this the sum could wrap
		m.pc = append(m.pc, tEq(digits[0].sym, tConst(8, '1')))
	}
	out := digits
	if neg {
		out = append([]Scalar{conc(8, '-')}, digits...)
	}
	return &String{b: out}
}

// byteAppendSite: a synthetic call site for appends of bytes made by intrinsics.
type byteAppendSite struct{ ssa.CallInstruction }

func (byteAppendSite) Common() *ssa.CallCommon { return byteAppendCommon }

var byteAppendCommon = &ssa.CallCommon{Args: []ssa.Value{ssa.NewConst(nil, types.NewSlice(types.Typ[types.Uint8]))}}

// countBytes: the number of elements equal to ch, as one term.
func countBytes(bs []Scalar, ch Scalar) Scalar {
	n := uint64(0)
	sum := tConst(64, 0)
	for _, b := range bs {
		if b.sym == nil && ch.sym == nil {
			if b.c == ch.c {
				n++
			}
			continue
		}
		sum = tBV("bvadd", sum, tIte(tEq(b.term(8), ch.term(8)), tConst(64, 1), tConst(64, 0)))
	}
	if sum.op == "const" {
		return conc(64, n+sum.cv)
	}
	return fromTerm(tBV("bvadd", sum, tConst(64, n)))
}

func poolKey(p Ptr) string { return fmt.Sprintf("%p%v", p.obj, p.path) }

func (m *Machine) syncMap(p Ptr) *Map {
	if m.syncMaps == nil {
		m.syncMaps = map[string]*Map{}
	}
	k := poolKey(p)
	if m.syncMaps[k] == nil {
		m.syncMaps[k] = &Map{}
	}
	return m.syncMaps[k]
}

// hasMethod: does the dynamic type of e have an exported method of that name?
func (m *Machine) hasMethod(e Iface, name string) bool {
	if _, nat := e.v.(*Native); nat {
		return false
	}
	return m.prog.MethodSets.MethodSet(e.t).Lookup(nil, name) != nil
}

// unwrapErr: the result of e.Unwrap() — a single error, or several (Unwrap() []error).
func (m *Machine) unwrapErr(c *frame, e Iface) (Iface, []Iface) {
	if nat, ok := e.v.(*Native); ok {
		if ne, ok := nat.data.(*nativeErr); ok && ne.wrapped != nil {
			return ne.wrapped.(Iface), nil
		}
		return Iface{}, nil
	}
	if !m.hasMethod(e, "Unwrap") {
		return Iface{}, nil
	}
	fn := m.prog.LookupMethod(e.t, nil, "Unwrap")
	res := fn.Signature.Results()
	if res.Len() != 1 {
		return Iface{}, nil
	}
	r := m.invoke(c, e, "Unwrap", nil, nil)
	if _, isSlice := res.At(0).Type().Underlying().(*types.Slice); isSlice {
		sl := r.(Slice)
		var out []Iface
		for k, n := 0, m.concLen(sl.len, "Unwrap []error"); k < n; k++ {
			out = append(out, m.sliceElem(sl, k).(Iface))
		}
		return Iface{}, out
	}
	if x, ok := r.(Iface); ok {
		return x, nil
	}
	return Iface{}, nil
}
