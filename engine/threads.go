package main

import (
	"runtime"
)

// Cooperative threads (nd.Go / nd.Yield / nd.WaitAll): each interpreted thread runs on its own
// host goroutine, but exactly one holds the baton at any time, so the Machine is never accessed
// concurrently. Control changes hands only at nd.Yield (and when a thread ends); the choice of
// the next thread is a decision named "sched", enumerated like any nd.Choose. The native
// implementation in harness/nd makes the same choices in the same order, so schedules replay.

type ithread struct {
	resume chan struct{}
	done   bool
	fn     value
	depth  int
}

func (m *Machine) schedChoose(n int) int {
	name := m.freshName("sched")
	v := m.choose(n)
	m.chooses["choose:"+name] = uint64(v)
	return v
}

func (m *Machine) unfinished() []*ithread {
	var rs []*ithread
	for _, t := range m.threads {
		if !t.done {
			rs = append(rs, t)
		}
	}
	return rs
}

// switchFrom: the running thread (nil = main) gives up control or has finished.
func (m *Machine) switchFrom(from *ithread) {
	cands := m.unfinished()
	var next *ithread // nil = main
	if m.threadPanic == nil && len(cands) > 0 {
		next = cands[m.schedChoose(len(cands))]
	}
	if next == from {
		return
	}
	// swap the per-thread recursion depth
	if from != nil {
		from.depth = m.depth
	} else {
		m.mainDepth = m.depth
	}
	m.curThread = next
	if next != nil {
		m.depth = next.depth
		next.resume <- struct{}{}
	} else {
		m.depth = m.mainDepth
		m.mainResume <- struct{}{}
	}
	if from != nil && from.done {
		return // the goroutine ends
	}
	if from == nil {
		<-m.mainResume
	} else {
		<-from.resume
		if m.killed {
			runtime.Goexit()
		}
	}
}

func (m *Machine) goThread(fn value) {
	if m.mainResume == nil {
		m.mainResume = make(chan struct{})
	}
	t := &ithread{resume: make(chan struct{}), fn: fn}
	m.threads = append(m.threads, t)
	go func() {
		<-t.resume
		if m.killed {
			return
		}
		defer func() {
			if m.killed {
				return
			}
			if r := recover(); r != nil && m.threadPanic == nil {
				m.threadPanic = r
			}
			t.done = true
			m.switchFrom(t)
		}()
		m.callValue(nil, t.fn, nil, nil)
	}()
}

func (m *Machine) yield() {
	if m.curThread == nil || len(m.threads) == 0 {
		return // main only schedules in WaitAll
	}
	m.switchFrom(m.curThread)
}

func (m *Machine) waitAll() {
	for m.threadPanic == nil && len(m.unfinished()) > 0 {
		m.switchFrom(nil)
	}
	p := m.threadPanic
	if p != nil {
		m.killThreads() // the path ends with this panic; release the blocked threads
	}
	m.threads, m.curThread, m.threadPanic = nil, nil, nil
	if p != nil {
		panic(p)
	}
}

// killThreads releases the host goroutines of threads that will never be scheduled again.
func (m *Machine) killThreads() {
	m.killed = true
	for _, t := range m.threads {
		if !t.done {
			t.done = true
			close(t.resume)
		}
	}
	m.killed = true
}
