// Package c20: shared immutable objects are safe to use from many goroutines at once.
//
// Decided by non-interference, not by exploring schedules: the harness builds the shared objects,
// calls nd.Freeze() — from then on every heap object and Go map allocated before that point and
// every package-level variable is read-only for the executor's write monitor — and runs one
// operation with symbolic inputs. If every operation of the quantified set only writes memory it
// allocated itself, any interleaving of such operations is data-race free and each returns its
// sequential result.
package c20

import (
	"bytes"
	"context"

	"github.com/ipld/go-ipld-prime/codec/dagcbor"
	"github.com/ipld/go-ipld-prime/codec/dagjson"
	"github.com/ipld/go-ipld-prime/datamodel"
	nd "github.com/ipld/go-ipld-prime/internal/verifnd"
	"github.com/ipld/go-ipld-prime/linking"
	cidlink "github.com/ipld/go-ipld-prime/linking/cid"
	"github.com/ipld/go-ipld-prime/multicodec"
	"github.com/ipld/go-ipld-prime/node/basicnode"
	"github.com/ipld/go-ipld-prime/node/bindnode"
	"github.com/ipld/go-ipld-prime/node/gendemo"
	"github.com/ipld/go-ipld-prime/schema"
	"github.com/ipld/go-ipld-prime/traversal"
	"github.com/ipld/go-ipld-prime/traversal/selector"
	"github.com/ipld/go-ipld-prime/zzverif/ref/gen"
	"github.com/ipld/go-ipld-prime/zzverif/ref/graph"
	"github.com/ipld/go-ipld-prime/zzverif/ref/nodecheck"
	"github.com/ipld/go-ipld-prime/zzverif/ref/refcbor"
	"github.com/ipld/go-ipld-prime/zzverif/ref/refschema"
	"github.com/ipld/go-ipld-prime/zzverif/ref/refval"
	"github.com/ipld/go-ipld-prime/zzverif/ref/selgen"
	"github.com/ipld/go-ipld-prime/zzverif/schemas"
)

var allRec = &selgen.Sel{Op: 'R', LimitNone: true, Subs: []*selgen.Sel{{Op: '|', Subs: []*selgen.Sel{{Op: '.'}, {Op: 'a', Subs: []*selgen.Sel{{Op: '@'}}}}}}}

// (bounds counted from the end and beyond the end: they are resolved against each node's length)
var subsetRec = &selgen.Sel{Op: 'R', LimitNone: true, Subs: []*selgen.Sel{{Op: '|', Subs: []*selgen.Sel{{Op: '.', Subset: true, From: -1, To: 100}, {Op: 'a', Subs: []*selgen.Sel{{Op: '@'}}}}}}}

// a union led by a fields clause with three names, next to clauses with other interests
var unionFields = &selgen.Sel{Op: 'R', LimitNone: true, Subs: []*selgen.Sel{{Op: '|', Subs: []*selgen.Sel{
	{Op: 'f', Fields: []string{"a", "b", "c"}, Subs: []*selgen.Sel{{Op: '@'}, {Op: '@'}, {Op: '.'}}},
	{Op: 'i', Index: 0, Subs: []*selgen.Sel{{Op: '@'}}}}}}}

func compile(s *selgen.Sel) selector.Selector {
	sel, err := selector.CompileSelector(gen.MustBuild(selgen.Doc(s)))
	if err != nil {
		panic(err)
	}
	return sel
}

func gendemoNode() datamodel.Node {
	nb := gendemo.Type.Map__String__Msg3.NewBuilder()
	ma, _ := nb.BeginMap(1)
	va, _ := ma.AssembleEntry(nd.String("gk", 1))
	mm, _ := va.BeginMap(3)
	for _, f := range []string{"whee", "woot", "waga"} {
		v, _ := mm.AssembleEntry(f)
		v.AssignInt(nd.Int64("g" + f))
	}
	mm.Finish()
	ma.Finish()
	return nb.Build()
}

// HSharedReads: operations on shared finished nodes.
func HSharedReads() {
	v := gen.FromShape("", []string{"{1i1[s1b1]c{cnct}}", "[i{1s1}b2l]"}[nd.Choose("shape", 2)])
	shared := gen.MustBuild(v)
	shared2 := gen.MustBuild(v)
	g := gendemoNode()
	var rs bytes.Reader
	streamed := basicnode.NewBytesFromReader(bytes.NewReader(nd.Bytes("stream", 2)))
	_ = rs
	op := nd.Choose("op", 9)
	nd.Freeze()
	nd.Concurrent(func() { sharedRead(op, shared, shared2, g, streamed, v) })
	nd.Thaw()
	nd.Reach("end")
}

func sharedRead(op int, shared, shared2, g, streamed datamodel.Node, v *refval.V) {
	switch op {
	case 0:
		nodecheck.Check(shared, v, nodecheck.Opts{Probe: nd.String("probe", 1), ProbeIx: nd.Int64("ix"), Deep: true})
	case 1:
		nd.Assert(datamodel.DeepEqual(shared, shared2), "DeepEqual of equal shared nodes")
	case 2:
		nb := basicnode.Prototype.Any.NewBuilder()
		nd.Assert(datamodel.Copy(shared, nb) == nil, "Copy")
		nb2 := basicnode.Prototype.Any.NewBuilder()
		nd.Assert(nb2.AssignNode(shared) == nil, "AssignNode")
		nb2.Build()
	case 3:
		var b1, b2 bytes.Buffer
		nd.Assert(dagcbor.Encode(shared, &b1) == nil, "encode dag-cbor")
		if v.K == refval.Map {
			nd.Assert(dagjson.Encode(gen.MustBuild(refval.MkMap([]string{"a"}, []*refval.V{refval.MkNull()})), &b2) == nil, "encode dag-json")
		}
	case 4: // typed and representation views of a generated node
		refval.Of(g)
		refval.Of(g.(schema.TypedNode).Representation())
		var b bytes.Buffer
		nd.Assert(dagcbor.Encode(g.(schema.TypedNode).Representation(), &b) == nil, "encode generated node")
	case 5: // building fresh nodes from shared prototypes
		nb := gendemo.Type.Msg3.NewBuilder()
		ma, _ := nb.BeginMap(3)
		for _, f := range []string{"whee", "woot", "waga"} {
			va, _ := ma.AssembleEntry(f)
			va.AssignInt(nd.Int64("n" + f))
		}
		nd.Assert(ma.Finish() == nil, "build from a shared generated prototype")
		nb.Build()
		nb2 := basicnode.Prototype.Map.NewBuilder()
		gen.Assign(nb2, gen.FromShape("fresh", "{1i}"))
	case 6: // decode into a fresh builder through the shared codec registry
		dec, err := multicodec.LookupDecoder(0x71)
		nd.Assert(err == nil, "registry lookup")
		nb := basicnode.Prototype.Any.NewBuilder()
		dec(nb, bytes.NewReader(nd.Bytes("cbor", 2)))
		enc, err := multicodec.LookupEncoder(0x0129)
		nd.Assert(err == nil, "registry lookup")
		var b bytes.Buffer
		enc(basicnode.NewString("x"), &b)
		multicodec.ListEncoders()
	case 7: // reads of a shared reader-backed bytes node are NOT claimed safe (stateful reader): only its kind
		nd.Assert(streamed.Kind() == datamodel.Kind_Bytes, "kind")
	case 8: // iterate concurrently: two iterators over the same node
		it1, it2 := shared.MapIterator(), shared.MapIterator()
		if it1 != nil {
			for !it1.Done() {
				it1.Next()
				it2.Next()
			}
		}
	}
}

var sharedTypeNames = []string{"UnionK", "UnionSP", "UnionKinded", "Plain", "OptComp", "MapSU", "EnumS", "Tuple"}

// HSharedTypes: a finished type system handed to several goroutines before anything was asked of
// it: creating bindings (inferred and user-supplied Go types), building through them, reading
// typed and representation views of a shared reflection-bound node, and querying the types.
func HSharedTypes() {
	ts := schemas.TypeSystem()
	name := sharedTypeNames[nd.Choose("type", nd.Param("TYPES", len(sharedTypeNames)))]
	t := schemas.ByName(name)
	g := &refschema.G{}
	v := g.Gen(t)
	op := nd.Choose("op", 5)
	var sharedProto schema.TypedPrototype
	var sharedNode datamodel.Node
	if op == 2 || op == 3 {
		// a prototype / node made before sharing
		sharedProto = bindnode.Prototype(schemas.GoPtr(name), ts.TypeByName(name))
		nb := sharedProto.NewBuilder()
		if refschema.Assign(nb, v) != nil {
			panic("setup")
		}
		sharedNode = nb.Build()
	}
	inferred := nd.Choose("inferred", 2) == 1
	nd.Freeze()
	nd.Concurrent(func() {
		switch op {
		case 0: // first use of the type: create a binding, build, read both views
			var ptr interface{}
			if !inferred {
				ptr = schemas.GoPtr(name)
			}
			p := bindnode.Prototype(ptr, ts.TypeByName(name))
			nb := p.NewBuilder()
			nd.Assert(refschema.Assign(nb, v) == nil, "build through a binding created from the shared type system")
			n := nb.Build()
			nd.Assert(refval.Equal(refval.Of(n), v), "the built node presents the value")
			nd.Assert(refval.Equal(refval.Of(n.(schema.TypedNode).Representation()), refschema.Repr(t, v)), "and its representation")
		case 1: // first use: questions to the type system itself
			st := ts.TypeByName(name)
			nd.Assert(st != nil && string(st.Name()) == name, "TypeByName")
			switch x := st.(type) {
			case *schema.TypeUnion:
				nd.Assert(len(x.Members()) == len(t.Members), "a union reports all its members")
				x.RepresentationStrategy()
			case *schema.TypeStruct:
				nd.Assert(len(x.Fields()) == len(t.Fields), "a struct reports all its fields")
				for _, f := range x.Fields() {
					f.Type()
					x.Field(f.Name())
				}
				x.RepresentationStrategy()
			case *schema.TypeMap:
				x.KeyType()
				x.ValueType()
			case *schema.TypeEnum:
				nd.Assert(len(x.Members()) == len(t.Members), "an enum reports all its members")
			}
			ts.Names()
		case 2: // build from a shared prototype, at both levels
			nb := sharedProto.NewBuilder()
			nd.Assert(refschema.Assign(nb, v) == nil, "build from a shared prototype")
			nb2 := sharedProto.Representation().NewBuilder()
			nd.Assert(refschema.Assign(nb2, refschema.Repr(t, v)) == nil, "build from a shared representation prototype")
			nd.Assert(datamodel.DeepEqual(nb.Build(), nb2.Build()), "both builds are equal")
		case 4: // copying types out of the shared type system leaves it as it was
			cl := schema.Clone(ts.TypeByName(name))
			nd.Assert(cl != nil && cl.Name() == name, "Clone")
			fresh := &schema.TypeSystem{}
			fresh.Init()
			schema.MergeTypeSystem(fresh, ts, true)
			nd.Assert(fresh.TypeByName(name) != nil, "MergeTypeSystem copies the type")
			if st, ok := ts.TypeByName(name).(*schema.TypeStruct); ok {
				for _, f := range st.Fields() {
					nd.Assert(f.Parent() == st && f.Type() == ts.TypeByName(string(f.Type().Name())), "the shared struct's fields still belong to it and resolve in its own type system")
				}
			}
		case 3: // read and encode a shared reflection-bound node
			nd.Assert(refval.Equal(refval.Of(sharedNode), v), "shared typed node reads as built")
			var b bytes.Buffer
			nd.Assert(dagcbor.Encode(sharedNode.(schema.TypedNode).Representation(), &b) == nil, "encode the representation of a shared node")
			nd.Assert(nd.EqBytes(b.Bytes(), refcbor.Encode(nil, refschema.Repr(t, v))), "encoding of the shared node")
		}
	})
	nd.Thaw()
	nd.Reach("end")
}

// HSharedWalk: walks with a shared compiled selector and a shared Config over a shared graph,
// loads and link computation through a shared link system over a read-only store.
func HSharedWalk() {
	g := graph.New("g", "[<[tn]>{c<{cs1}>}s2]")
	ls := g.LS
	ls.StorageReadOpener = g.Store.OpenRead // (no instrumentation: the store is only read)
	sel := compile(allRec)
	sub := compile(subsetRec)
	var cfg *traversal.Config
	switch nd.Choose("cfg", 3) {
	case 0: // fully configured
		cfg = &traversal.Config{Ctx: context.Background(), LinkSystem: ls, LinkTargetNodePrototypeChooser: graph.Chooser}
	case 1: // the optional context left nil
		cfg = &traversal.Config{LinkSystem: ls, LinkTargetNodePrototypeChooser: graph.Chooser}
	case 2: // visit-once
		cfg = &traversal.Config{Ctx: context.Background(), LinkSystem: ls, LinkTargetNodePrototypeChooser: graph.Chooser, LinkVisitOnlyOnce: true}
	}
	var lnk datamodel.Link
	for _, c := range g.V.L {
		if c.K == refval.Link {
			lnk = gen.LinkOf(c)
		}
	}
	uf := compile(unionFields)
	op := nd.Choose("op", 8)
	if op == 7 {
		sel = uf
		op = 0
	}
	nd.Freeze()
	nd.Concurrent(func() { sharedWalk(op, g, ls, cfg, sel, sub, lnk) })
	nd.Thaw()
	nd.Reach("end")
}

func sharedWalk(op int, g *graph.G, ls linking.LinkSystem, cfg *traversal.Config, sel, sub selector.Selector, lnk datamodel.Link) {
	switch op {
	case 0:
		err := traversal.Progress{Cfg: cfg}.WalkAdv(g.Root, sel, func(traversal.Progress, datamodel.Node, traversal.VisitReason) error { return nil })
		nd.Assert(err == nil, "walk")
	case 1:
		err := traversal.Progress{Cfg: cfg}.WalkMatching(g.Root, sub, func(p traversal.Progress, n datamodel.Node) error { refval.Of(n); return nil })
		nd.Assert(err == nil, "matching walk with subsets")
	case 2:
		_, err := traversal.Progress{Cfg: cfg}.Get(g.Root, datamodel.ParsePath("1/a/a"))
		nd.Assert(err == nil, "get through links")
	case 3:
		n, err := ls.Load(linking.LinkContext{}, lnk, basicnode.Prototype.Any)
		nd.Assert(err == nil && n != nil, "load through the shared link system")
		_, err = ls.LoadRaw(linking.LinkContext{}, lnk)
		nd.Assert(err == nil, "load raw")
	case 4:
		lp := lnk.(cidlink.Link).Prototype()
		_, err := ls.ComputeLink(lp, g.Root)
		nd.Assert(err == nil, "compute link")
	case 6: // results stay valid while the link system goes on serving loads (to anyone)
		links := allLinks(g.V, nil)
		var raws [][]byte
		var nodes []datamodel.Node
		for round := 0; round < 2; round++ {
			for _, l := range links {
				r, err := ls.LoadRaw(linking.LinkContext{}, l)
				nd.Assert(err == nil, "load raw")
				raws = append(raws, r)
				n, r2, err := ls.LoadPlusRaw(linking.LinkContext{}, l, basicnode.Prototype.Any)
				nd.Assert(err == nil, "load plus raw")
				raws, nodes = append(raws, r2), append(nodes, n)
			}
		}
		k := 0
		for round := 0; round < 2; round++ {
			for i, l := range links {
				want := g.Store.Bag[string(l.(cidlink.Link).Cid.Hash())]
				nd.Assert(nd.EqBytes(raws[k], want) && nd.EqBytes(raws[k+1], want), "raw bytes obtained from a load are still the block after later loads")
				k += 2
				var b bytes.Buffer
				nd.Assert(dagcbor.Encode(nodes[round*len(links)+i], &b) == nil && nd.EqBytes(b.Bytes(), want), "a node obtained from a load still is the block's value after later loads")
			}
		}
	case 5:
		out, err := traversal.Progress{Cfg: cfg}.WalkTransforming(g.Root, sel, func(p traversal.Progress, n datamodel.Node) (datamodel.Node, error) { return n, nil })
		nd.Assert(err == nil && out != nil, "identity walking transform")
	}
}

// allLinks: every link of the graph, through the blocks.
func allLinks(v *refval.V, acc []datamodel.Link) []datamodel.Link {
	if v.K == refval.Link {
		acc = append(acc, gen.LinkOf(v))
		return allLinks(v.T, acc)
	}
	for _, c := range v.L {
		acc = allLinks(c, acc)
	}
	return acc
}
