// Package schemas: the schema family shared by the typed-node checks (C08, C09, C13, C19, C20) with
// the Go types bound to it.
package schemas

import (
	"github.com/ipld/go-ipld-prime/datamodel"
	"github.com/ipld/go-ipld-prime/schema"
)

// ---- Go types (explicit bindings) ----

type Plain struct {
	A int64
	B string
	C bool
}

type Narrow struct {
	N int8
	U uint8
	W uint32
	X uint64
}

type OptNull struct {
	Req  int64
	Opt  *string
	Nul  *int64
	Both **string
}

type Tuple struct {
	X int64
	Y string
	Z *string
}

type Join struct {
	P string
	Q string
}

type Pairs struct {
	A int64
	B string
}

type MapSI struct {
	Keys   []string
	Values map[string]int64
}

type ListS []string

type UnionK struct {
	Int    *int64
	String *string
}

type UnionKinded struct {
	Int    *int64
	String *string
	Plain  *Plain
}

type UnionSP struct {
	Foo *string
	Bar *string
}

type Nested struct {
	P  Plain
	L  []int64
	M  MapSI
	U  UnionK
	E  string
	EI int64
	By []byte
}

// TypeSystem builds the family.
func TypeSystem() *schema.TypeSystem {
	ts := &schema.TypeSystem{}
	ts.Init()
	ts.Accumulate(schema.SpawnInt("Int"))
	ts.Accumulate(schema.SpawnString("String"))
	ts.Accumulate(schema.SpawnBool("Bool"))
	ts.Accumulate(schema.SpawnBytes("Bytes"))
	ts.Accumulate(schema.SpawnStruct("Plain", []schema.StructField{
		schema.SpawnStructField("A", "Int", false, false),
		schema.SpawnStructField("B", "String", false, false),
		schema.SpawnStructField("C", "Bool", false, false),
	}, schema.SpawnStructRepresentationMap(map[string]string{"A": "a!"})))
	ts.Accumulate(schema.SpawnStruct("Narrow", []schema.StructField{
		schema.SpawnStructField("N", "Int", false, false),
		schema.SpawnStructField("U", "Int", false, false),
		schema.SpawnStructField("W", "Int", false, false),
		schema.SpawnStructField("X", "Int", false, false),
	}, schema.SpawnStructRepresentationMap(nil)))
	ts.Accumulate(schema.SpawnStruct("OptNull", []schema.StructField{
		schema.SpawnStructField("Req", "Int", false, false),
		schema.SpawnStructField("Opt", "String", true, false),
		schema.SpawnStructField("Nul", "Int", false, true),
		schema.SpawnStructField("Both", "String", true, true),
	}, schema.SpawnStructRepresentationMap(nil)))
	ts.Accumulate(schema.SpawnStruct("Tuple", []schema.StructField{
		schema.SpawnStructField("X", "Int", false, false),
		schema.SpawnStructField("Y", "String", false, false),
		schema.SpawnStructField("Z", "String", true, false),
	}, schema.SpawnStructRepresentationTuple()))
	ts.Accumulate(schema.SpawnStruct("Join", []schema.StructField{
		schema.SpawnStructField("P", "String", false, false),
		schema.SpawnStructField("Q", "String", false, false),
	}, schema.SpawnStructRepresentationStringjoin(":")))
	ts.Accumulate(schema.SpawnStruct("Pairs", []schema.StructField{
		schema.SpawnStructField("A", "Int", false, false),
		schema.SpawnStructField("B", "String", false, false),
	}, schema.SpawnStructRepresentationListPairs()))
	ts.Accumulate(schema.SpawnMap("MapSI", "String", "Int", false))
	ts.Accumulate(schema.SpawnList("ListS", "String", false))
	ts.Accumulate(schema.SpawnList("ListI", "Int", false))
	ts.Accumulate(schema.SpawnUnion("UnionK", []schema.TypeName{"Int", "String"},
		schema.SpawnUnionRepresentationKeyed(map[string]schema.TypeName{"i": "Int", "s": "String"})))
	ts.Accumulate(schema.SpawnUnion("UnionKinded", []schema.TypeName{"Int", "String", "Plain"},
		schema.SpawnUnionRepresentationKinded(map[datamodel.Kind]schema.TypeName{datamodel.Kind_Int: "Int", datamodel.Kind_String: "String", datamodel.Kind_Map: "Plain"})))
	ts.Accumulate(schema.SpawnString("Foo"))
	ts.Accumulate(schema.SpawnString("Bar"))
	ts.Accumulate(schema.SpawnUnion("UnionSP", []schema.TypeName{"Foo", "Bar"},
		schema.SpawnUnionRepresentationStringprefix("", map[string]schema.TypeName{"f:": "Foo", "b:": "Bar"})))
	ts.Accumulate(schema.SpawnEnum("EnumS", []string{"Yes", "No"}, schema.EnumRepresentation_String{"No": "n"}))
	ts.Accumulate(schema.SpawnEnum("EnumI", []string{"One", "Two"}, schema.EnumRepresentation_Int{"One": 1, "Two": 2}))
	ts.Accumulate(schema.SpawnStruct("Nested", []schema.StructField{
		schema.SpawnStructField("P", "Plain", false, false),
		schema.SpawnStructField("L", "ListI", false, false),
		schema.SpawnStructField("M", "MapSI", false, false),
		schema.SpawnStructField("U", "UnionK", false, false),
		schema.SpawnStructField("E", "EnumS", false, false),
		schema.SpawnStructField("EI", "EnumI", false, false),
		schema.SpawnStructField("By", "Bytes", false, false),
	}, schema.SpawnStructRepresentationMap(nil)))
	if errs := ts.ValidateGraph(); len(errs) > 0 {
		panic(errs[0])
	}
	return ts
}
