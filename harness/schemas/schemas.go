// Package schemas: the schema family shared by the typed-node checks (C08, C09, C13, C19, C20) with
// the Go types bound to it.
package schemas

import (
	"github.com/ipld/go-ipld-prime/datamodel"
	"github.com/ipld/go-ipld-prime/schema"
)

// ---- declarative description of the family: the single source from which both the real
// schema.TypeSystem (handed to bindnode and to the code generator) and the reference semantics
// of ref/refschema are derived ----

type T struct {
	Name         string
	Kind         string // int string bool bytes struct map list union enum
	Repr         string // struct: map tuple stringjoin listpairs; union: keyed kinded stringprefix; enum: string int
	Delim        string
	Fields       []F
	Members      []M
	Elem         string // map value / list element type name
	ElemNullable bool
	NoGen        bool // outside the code generator's feature set
}

type F struct {
	Name     string
	Type     string
	Optional bool
	Nullable bool
	Rename   string
}

type M struct {
	Type  string // union member type name / enum member name
	Discr string // keyed: key; stringprefix: prefix; enum string: representation string
	Kind  datamodel.Kind
	Int   int // enum int representation
}

var Family = []*T{
	{Name: "Int", Kind: "int"}, {Name: "String", Kind: "string"}, {Name: "Bool", Kind: "bool"}, {Name: "Bytes", Kind: "bytes"},
	{Name: "Foo", Kind: "string"}, {Name: "Bar", Kind: "string"},
	{Name: "Plain", Kind: "struct", Repr: "map", Fields: []F{{Name: "A", Type: "Int", Rename: "a!"}, {Name: "B", Type: "String"}, {Name: "C", Type: "Bool"}}},
	{Name: "Narrow", Kind: "struct", Repr: "map", NoGen: true, Fields: []F{{Name: "N", Type: "Int"}, {Name: "U", Type: "Int"}, {Name: "W", Type: "Int"}, {Name: "X", Type: "Int"}}},
	{Name: "OptNull", Kind: "struct", Repr: "map", Fields: []F{{Name: "Req", Type: "Int"}, {Name: "Opt", Type: "String", Optional: true}, {Name: "Nul", Type: "Int", Nullable: true}, {Name: "Both", Type: "String", Optional: true, Nullable: true}}},
	{Name: "Tuple", Kind: "struct", Repr: "tuple", Fields: []F{{Name: "X", Type: "Int"}, {Name: "Y", Type: "String"}, {Name: "Z", Type: "String", Optional: true}}},
	{Name: "Join", Kind: "struct", Repr: "stringjoin", Delim: ":", Fields: []F{{Name: "P", Type: "String"}, {Name: "Q", Type: "String"}}},
	{Name: "Pairs", Kind: "struct", Repr: "listpairs", NoGen: true, Fields: []F{{Name: "A", Type: "Int"}, {Name: "B", Type: "String"}}},
	{Name: "MapSI", Kind: "map", Elem: "Int"},
	{Name: "ListS", Kind: "list", Elem: "String"},
	{Name: "ListI", Kind: "list", Elem: "Int"},
	{Name: "UnionK", Kind: "union", Repr: "keyed", Members: []M{{Type: "Int", Discr: "i"}, {Type: "String", Discr: "s"}}},
	{Name: "UnionKinded", Kind: "union", Repr: "kinded", Members: []M{{Type: "Int", Kind: datamodel.Kind_Int}, {Type: "String", Kind: datamodel.Kind_String}, {Type: "Plain", Kind: datamodel.Kind_Map}}},
	{Name: "UnionSP", Kind: "union", Repr: "stringprefix", Delim: ":", Members: []M{{Type: "Foo", Discr: "f"}, {Type: "Bar", Discr: "b"}}},
	{Name: "EnumS", Kind: "enum", Repr: "string", NoGen: true, Members: []M{{Type: "Yes", Discr: "Yes"}, {Type: "No", Discr: "n"}}},
	{Name: "EnumI", Kind: "enum", Repr: "int", NoGen: true, Members: []M{{Type: "One", Int: 1}, {Type: "Two", Int: 2}}},
	// compositions: unions, structs and nullable values inside containers; maybes of composite types;
	// an enum whose representation strings are other members' names
	{Name: "MapSU", Kind: "map", Elem: "UnionSP"},
	{Name: "ListU", Kind: "list", Elem: "UnionK"},
	{Name: "MapSP", Kind: "map", Elem: "Plain"},
	{Name: "ListT", Kind: "list", Elem: "Tuple"},
	{Name: "MapSN", Kind: "map", Elem: "Int", ElemNullable: true},
	{Name: "ListN", Kind: "list", Elem: "String", ElemNullable: true},
	{Name: "OptComp", Kind: "struct", Repr: "map", Fields: []F{{Name: "U", Type: "UnionSP", Nullable: true}, {Name: "K", Type: "UnionK", Optional: true, Nullable: true}}},
	{Name: "OptMore", Kind: "struct", Repr: "map", Fields: []F{{Name: "L", Type: "ListI", Optional: true}, {Name: "J", Type: "Join", Optional: true}, {Name: "M", Type: "MapSI", Nullable: true}}},
	{Name: "OptOne", Kind: "struct", Repr: "map", Fields: []F{{Name: "N", Type: "String"}, {Name: "P", Type: "Plain", Optional: true}, {Name: "U", Type: "UnionK", Nullable: true}}},
	{Name: "ListOO", Kind: "list", Elem: "OptOne"},
	{Name: "MapOO", Kind: "map", Elem: "OptOne"},
	{Name: "UnionKinded2", Kind: "union", Repr: "kinded", Members: []M{{Type: "Tuple", Kind: datamodel.Kind_List}, {Type: "Join", Kind: datamodel.Kind_String}, {Type: "MapSI", Kind: datamodel.Kind_Map}}},
	{Name: "ListNP", Kind: "list", Elem: "Plain", ElemNullable: true},
	{Name: "AllOpt", Kind: "struct", Repr: "map", Fields: []F{{Name: "A", Type: "Int", Optional: true}, {Name: "B", Type: "String", Optional: true}}},
	{Name: "Swap", Kind: "struct", Repr: "map", Fields: []F{{Name: "L", Type: "Int", Rename: "R"}, {Name: "R", Type: "Int", Rename: "L"}, {Name: "Cur", Type: "String", Rename: "Prev"}, {Name: "Prev", Type: "String", Rename: "Arch"}}},
	{Name: "LeadOpt", Kind: "struct", Repr: "map", Fields: []F{{Name: "A", Type: "Int", Optional: true}, {Name: "B", Type: "String", Optional: true}, {Name: "C", Type: "Bool", Optional: true}, {Name: "D", Type: "Int"}}},
	{Name: "LeadOptLP", Kind: "struct", Repr: "listpairs", NoGen: true, Fields: []F{{Name: "A", Type: "Int", Optional: true}, {Name: "B", Type: "String", Optional: true}, {Name: "C", Type: "Int"}, {Name: "D", Type: "String", Optional: true}, {Name: "E", Type: "Int"}}},
	{Name: "TupleOpt", Kind: "struct", Repr: "tuple", Fields: []F{{Name: "X", Type: "Int", Optional: true}, {Name: "Y", Type: "String", Optional: true}}},
	{Name: "UnionSP2", Kind: "union", Repr: "stringprefix", Delim: ":", Members: []M{{Type: "UnionSP", Discr: "u"}, {Type: "Foo", Discr: "g"}}},
	// a stringprefix union without delimiter (bindnode only: the generator requires one); the payload's first byte is free, so it can equal a byte of the prefix
	{Name: "UnionSP0", Kind: "union", Repr: "stringprefix", Delim: "", NoGen: true, Members: []M{{Type: "Foo", Discr: "ab"}, {Type: "Bar", Discr: "c"}}},
	{Name: "TupleON", Kind: "struct", Repr: "tuple", Fields: []F{{Name: "X", Type: "String"}, {Name: "Y", Type: "String", Optional: true, Nullable: true}, {Name: "Z", Type: "String", Optional: true, Nullable: true}}},
	{Name: "Any", Kind: "any", NoGen: true},
	{Name: "ListNA", Kind: "list", Elem: "Any", ElemNullable: true, NoGen: true},
	{Name: "MapSA", Kind: "map", Elem: "Any", NoGen: true},
	{Name: "WithAny", Kind: "struct", Repr: "map", NoGen: true, Fields: []F{{Name: "V", Type: "Any"}, {Name: "N", Type: "Any", Nullable: true}, {Name: "O", Type: "Any", Optional: true}}},
	{Name: "EnumX", Kind: "enum", Repr: "string", NoGen: true, Members: []M{{Type: "Low", Discr: "Med"}, {Type: "Med", Discr: "High"}, {Type: "High", Discr: "Max"}}},
	{Name: "Outer", Kind: "struct", Repr: "map", Fields: []F{{Name: "P", Type: "Plain"}, {Name: "L", Type: "ListI"}, {Name: "M", Type: "MapSI"}, {Name: "U", Type: "UnionK"}}},
	{Name: "Nested", Kind: "struct", Repr: "map", NoGen: true, Fields: []F{{Name: "P", Type: "Plain"}, {Name: "L", Type: "ListI"}, {Name: "M", Type: "MapSI"}, {Name: "U", Type: "UnionK"}, {Name: "E", Type: "EnumS"}, {Name: "EI", Type: "EnumI"}, {Name: "By", Type: "Bytes"}}},
}

// ByName finds a description.
func ByName(name string) *T {
	for _, t := range Family {
		if t.Name == name {
			return t
		}
	}
	panic("schemas: no type " + name)
}

// Build makes the real type system from the descriptions (gen: only the generator's feature set).
func Build(gen bool) *schema.TypeSystem {
	ts := &schema.TypeSystem{}
	ts.Init()
	for _, t := range Family {
		if gen && t.NoGen {
			continue
		}
		n := schema.TypeName(t.Name)
		switch t.Kind {
		case "int":
			ts.Accumulate(schema.SpawnInt(n))
		case "string":
			ts.Accumulate(schema.SpawnString(n))
		case "bool":
			ts.Accumulate(schema.SpawnBool(n))
		case "bytes":
			ts.Accumulate(schema.SpawnBytes(n))
		case "any":
			ts.Accumulate(schema.SpawnAny(n))
		case "map":
			ts.Accumulate(schema.SpawnMap(n, "String", schema.TypeName(t.Elem), t.ElemNullable))
		case "list":
			ts.Accumulate(schema.SpawnList(n, schema.TypeName(t.Elem), t.ElemNullable))
		case "struct":
			var fs []schema.StructField
			renames := map[string]string{}
			for _, f := range t.Fields {
				fs = append(fs, schema.SpawnStructField(f.Name, schema.TypeName(f.Type), f.Optional, f.Nullable))
				if f.Rename != "" {
					renames[f.Name] = f.Rename
				}
			}
			var repr schema.StructRepresentation
			switch t.Repr {
			case "map":
				repr = schema.SpawnStructRepresentationMap(renames)
			case "tuple":
				repr = schema.SpawnStructRepresentationTuple()
			case "stringjoin":
				repr = schema.SpawnStructRepresentationStringjoin(t.Delim)
			case "listpairs":
				repr = schema.SpawnStructRepresentationListPairs()
			}
			ts.Accumulate(schema.SpawnStruct(n, fs, repr))
		case "union":
			var ms []schema.TypeName
			keyed := map[string]schema.TypeName{}
			kinded := map[datamodel.Kind]schema.TypeName{}
			for _, m := range t.Members {
				ms = append(ms, schema.TypeName(m.Type))
				keyed[m.Discr] = schema.TypeName(m.Type)
				kinded[m.Kind] = schema.TypeName(m.Type)
			}
			var repr schema.UnionRepresentation
			switch t.Repr {
			case "keyed":
				repr = schema.SpawnUnionRepresentationKeyed(keyed)
			case "kinded":
				repr = schema.SpawnUnionRepresentationKinded(kinded)
			case "stringprefix":
				repr = schema.SpawnUnionRepresentationStringprefix(t.Delim, keyed)
			}
			ts.Accumulate(schema.SpawnUnion(n, ms, repr))
		case "enum":
			var ms []string
			rs, ri := schema.EnumRepresentation_String{}, schema.EnumRepresentation_Int{}
			for _, m := range t.Members {
				ms = append(ms, m.Type)
				if m.Discr != m.Type {
					rs[m.Type] = m.Discr
				}
				ri[m.Type] = m.Int
			}
			if t.Repr == "int" {
				ts.Accumulate(schema.SpawnEnum(n, ms, ri))
			} else {
				ts.Accumulate(schema.SpawnEnum(n, ms, rs))
			}
		}
	}
	if errs := ts.ValidateGraph(); len(errs) > 0 {
		panic(errs[0])
	}
	return ts
}

// TypeSystem is the whole family; GenTypeSystem the part inside the generator's feature set.
func TypeSystem() *schema.TypeSystem    { return Build(false) }
func GenTypeSystem() *schema.TypeSystem { return Build(true) }

// ---- Go types (explicit bindings) ----

type Plain struct {
	A int64
	B string
	C bool
}

type Narrow struct {
	N int8
	U uint8
	W uint32
	X uint64
}

type OptNull struct {
	Req  int64
	Opt  *string
	Nul  *int64
	Both **string
}

type Tuple struct {
	X int64
	Y string
	Z *string
}

type Join struct {
	P string
	Q string
}

type Pairs struct {
	A int64
	B string
}

type MapSI struct {
	Keys   []string
	Values map[string]int64
}

type ListS []string

type UnionK struct {
	Int    *int64
	String *string
}

type UnionKinded struct {
	Int    *int64
	String *string
	Plain  *Plain
}

type UnionSP struct {
	Foo *string
	Bar *string
}

type MapSU struct {
	Keys   []string
	Values map[string]UnionSP
}

type ListU []UnionK

type MapSN struct {
	Keys   []string
	Values map[string]*int64
}

type OptComp struct {
	U *UnionSP
	K **UnionK
}

type OptMore struct {
	L []int64 // optional through a nilable, non-pointer Go type
	J *Join
	M *MapSI
}

// EnumI8: the int-represented enum EnumI held in a narrow Go integer.
type EnumI8 int8

type Swap struct {
	L    int64
	R    int64
	Cur  string
	Prev string
}

type Nested struct {
	P  Plain
	L  []int64
	M  MapSI
	U  UnionK
	E  string
	EI int64
	By []byte
}

// GoPtr: a nil pointer of the user-supplied Go type bound to a schema type, or nil if the family declares none.
func GoPtr(name string) interface{} {
	switch name {
	case "Plain":
		return (*Plain)(nil)
	case "Narrow":
		return (*Narrow)(nil)
	case "OptNull":
		return (*OptNull)(nil)
	case "Tuple":
		return (*Tuple)(nil)
	case "Join":
		return (*Join)(nil)
	case "Pairs":
		return (*Pairs)(nil)
	case "MapSI":
		return (*MapSI)(nil)
	case "ListS":
		return (*ListS)(nil)
	case "UnionK":
		return (*UnionK)(nil)
	case "UnionKinded":
		return (*UnionKinded)(nil)
	case "UnionSP":
		return (*UnionSP)(nil)
	case "Nested":
		return (*Nested)(nil)
	case "MapSU":
		return (*MapSU)(nil)
	case "ListU":
		return (*ListU)(nil)
	case "MapSN":
		return (*MapSN)(nil)
	case "OptComp":
		return (*OptComp)(nil)
	case "OptMore":
		return (*OptMore)(nil)
	case "Swap":
		return (*Swap)(nil)
	case "EnumI":
		return (*EnumI8)(nil)
	}
	return nil
}
