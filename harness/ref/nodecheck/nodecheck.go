// Package nodecheck reads a node through every read API and states, as obligations, that it
// presents exactly an abstract value.
package nodecheck

import (
	"io"
	"math"

	"github.com/ipld/go-ipld-prime/datamodel"
	nd "github.com/ipld/go-ipld-prime/internal/verifnd"
	cidlink "github.com/ipld/go-ipld-prime/linking/cid"
	"github.com/ipld/go-ipld-prime/node/basicnode"
	"github.com/ipld/go-ipld-prime/zzverif/ref/refval"
)

var kinds = map[refval.Kind]datamodel.Kind{refval.Null: datamodel.Kind_Null, refval.Bool: datamodel.Kind_Bool, refval.Int: datamodel.Kind_Int, refval.Uint: datamodel.Kind_Int,
	refval.Float: datamodel.Kind_Float, refval.String: datamodel.Kind_String, refval.Bytes: datamodel.Kind_Bytes, refval.List: datamodel.Kind_List,
	refval.Map: datamodel.Kind_Map, refval.Link: datamodel.Kind_Link}

// FloatEq: numeric equality of two non-NaN floats given as bits.
func FloatEq(a, b uint64) bool { return nd.Or(a == b, (a|b)<<1 == 0) }

// AbstractEqual: equality of abstract values as data-model values (floats numerically).
func AbstractEqual(a, b *refval.V) bool {
	if a.K != b.K {
		return false
	}
	switch a.K {
	case refval.Float:
		return FloatEq(a.U, b.U)
	case refval.List, refval.Map:
		if len(a.L) != len(b.L) {
			return false
		}
		r := true
		for i := range a.L {
			if a.K == refval.Map {
				r = nd.And(r, a.Keys[i] == b.Keys[i])
			}
			r = nd.And(r, AbstractEqual(a.L[i], b.L[i]))
		}
		return r
	}
	return refval.Equal(a, b)
}

type Opts struct {
	Probe   string // a symbolic key to look up in every map (may or may not be present)
	ProbeIx int64  // a symbolic index to look up in every list
	Deep    bool   // recurse into children
	Label   string
	// Typed: n is a schema-typed node or the representation of one: optional fields that are not
	// there read as Absent at type level, and looking up a key that is no field / member is some
	// error (the typed implementations have their own error types), not necessarily ErrNotExists.
	Typed bool
}

func wrongKind(err error) bool {
	_, ok := err.(datamodel.ErrWrongKind)
	return ok
}

// Check asserts that n presents exactly v.
func Check(n datamodel.Node, v *refval.V, o Opts) {
	L := o.Label
	nd.Assert(n != nil, L+"node is not nil")
	if n == nil {
		return
	}
	if v.K == refval.Absent {
		nd.Assert(o.Typed && n.IsAbsent(), L+"an optional field that is not there reads as Absent")
		return
	}
	nd.Assert(n.Kind() == kinds[v.K], L+"Kind")
	if n.Kind() != kinds[v.K] {
		return
	}
	nd.Assert(!n.IsAbsent(), L+"IsAbsent is false")
	nd.Assert(n.IsNull() == (v.K == refval.Null), L+"IsNull")
	// scalar accessors: the right one returns the value, every other one a wrong-kind error
	b, err := n.AsBool()
	if v.K == refval.Bool {
		nd.Assert(err == nil && b == v.B, L+"AsBool")
	} else {
		nd.Assert(wrongKind(err), L+"AsBool on another kind is a wrong-kind error")
	}
	i, err := n.AsInt()
	switch v.K {
	case refval.Int:
		nd.Assert(err == nil && i == v.I, L+"AsInt")
	case refval.Uint:
		nd.Assert(err != nil, L+"AsInt of a value above MaxInt64 is an error")
		un, ok := n.(datamodel.UintNode)
		nd.Assert(ok, L+"value above MaxInt64 is a UintNode")
		if ok {
			u, err := un.AsUint()
			nd.Assert(err == nil && u == v.U, L+"AsUint")
		}
	default:
		nd.Assert(wrongKind(err), L+"AsInt on another kind is a wrong-kind error")
	}
	f, err := n.AsFloat()
	if v.K == refval.Float {
		nd.Assert(err == nil && FloatEq(math.Float64bits(f), v.U), L+"AsFloat")
	} else {
		nd.Assert(wrongKind(err), L+"AsFloat on another kind is a wrong-kind error")
	}
	s, err := n.AsString()
	if v.K == refval.String {
		nd.Assert(err == nil && s == v.S, L+"AsString")
	} else {
		nd.Assert(wrongKind(err), L+"AsString on another kind is a wrong-kind error")
	}
	bs, err := n.AsBytes()
	if v.K == refval.Bytes {
		nd.Assert(err == nil && string(bs) == v.S, L+"AsBytes")
		if lb, ok := n.(datamodel.LargeBytesNode); ok {
			rs, err := lb.AsLargeBytes()
			nd.Assert(err == nil, L+"AsLargeBytes")
			if err == nil {
				all, err := io.ReadAll(rs)
				nd.Assert(err == nil && string(all) == v.S, L+"AsLargeBytes content")
			}
		}
	} else {
		nd.Assert(wrongKind(err), L+"AsBytes on another kind is a wrong-kind error")
	}
	lk, err := n.AsLink()
	if v.K == refval.Link {
		cl, ok := lk.(cidlink.Link)
		nd.Assert(err == nil && ok && string(cl.Cid.Bytes()) == v.S, L+"AsLink")
	} else {
		nd.Assert(wrongKind(err), L+"AsLink on another kind is a wrong-kind error")
	}
	// length
	switch v.K {
	case refval.List, refval.Map:
		nd.Assert(n.Length() == int64(len(v.L)), L+"Length is the number of entries")
	default:
		nd.Assert(n.Length() == -1, L+"Length of a scalar is -1")
	}
	// container API on the wrong kind
	if v.K != refval.Map {
		nd.Assert(n.MapIterator() == nil, L+"MapIterator of a non-map is nil")
		_, err := n.LookupByString("x")
		nd.Assert(err != nil, L+"LookupByString on a non-map is an error")
	}
	if v.K != refval.List {
		nd.Assert(n.ListIterator() == nil, L+"ListIterator of a non-list is nil")
	}
	if v.K != refval.List && v.K != refval.Map {
		_, err = n.LookupByIndex(0)
		nd.Assert(err != nil, L+"LookupByIndex on a scalar is an error")
		_, err = n.LookupBySegment(datamodel.PathSegmentOfString("x"))
		nd.Assert(err != nil, L+"LookupBySegment on a scalar is an error")
		_, err = n.LookupByNode(basicnode.NewString("x"))
		nd.Assert(err != nil, L+"LookupByNode on a scalar is an error")
		return
	}
	if v.K == refval.List {
		it := n.ListIterator()
		nd.Assert(it != nil, L+"ListIterator")
		for k, want := range v.L {
			nd.Assert(!it.Done(), L+"list iterator not done before the last element")
			idx, c, err := it.Next()
			nd.Assert(err == nil && idx == int64(k), L+"list iterator yields indices in order")
			if err != nil {
				return
			}
			nd.Assert(refval.Equal(refval.Of(c), want), L+"list iterator yields the elements in order")
			c2, err := n.LookupByIndex(int64(k))
			nd.Assert(err == nil && refval.Equal(refval.Of(c2), want), L+"LookupByIndex agrees with the iterator")
			c3, err := n.LookupBySegment(datamodel.PathSegmentOfInt(int64(k)))
			nd.Assert(err == nil && refval.Equal(refval.Of(c3), want), L+"LookupBySegment agrees with the iterator")
			if o.Deep {
				o2 := o
				o2.Label = L + "elem: "
				Check(c, want, o2)
			}
		}
		nd.Assert(it.Done(), L+"list iterator done after the last element")
		_, _, err := it.Next()
		_, over := err.(datamodel.ErrIteratorOverread)
		nd.Assert(over, L+"list iterator overread is ErrIteratorOverread")
		// a symbolic index: present iff within range
		c, err := n.LookupByIndex(o.ProbeIx)
		in := o.ProbeIx >= 0 && o.ProbeIx < int64(len(v.L))
		nd.Assert((err == nil) == in, L+"LookupByIndex succeeds exactly for indices in range")
		if err != nil {
			_, ne := err.(datamodel.ErrNotExists)
			nd.Assert(ne || o.Typed, L+"LookupByIndex out of range is ErrNotExists")
		} else {
			for k, want := range v.L {
				if o.ProbeIx == int64(k) {
					nd.Assert(refval.Equal(refval.Of(c), want), L+"LookupByIndex returns the element at that index")
				}
			}
		}
		_, err = n.LookupByString("x")
		nd.Assert(err != nil, L+"LookupByString on a list is an error")
		return
	}
	it := n.MapIterator()
	nd.Assert(it != nil, L+"MapIterator")
	var keysSeen []datamodel.Node
	defer func() {
		// key nodes handed out by the iterator are nodes like any other: they keep their value
		// after the iterator has moved on
		for k, kn := range keysSeen {
			ks, err := kn.AsString()
			nd.Assert(err == nil && ks == v.Keys[k], L+"a key node obtained from the iterator still reads the same after the iteration")
		}
	}()
	for k, want := range v.L {
		nd.Assert(!it.Done(), L+"map iterator not done before the last entry")
		kn, c, err := it.Next()
		nd.Assert(err == nil, L+"map iterator")
		if err != nil {
			return
		}
		ks, err := kn.AsString()
		nd.Assert(err == nil && ks == v.Keys[k], L+"map iterator yields keys in insertion order")
		keysSeen = append(keysSeen, kn)
		nd.Assert(refval.Equal(refval.Of(c), want), L+"map iterator yields values in insertion order")
		c2, err := n.LookupByString(v.Keys[k])
		nd.Assert(err == nil && refval.Equal(refval.Of(c2), want), L+"LookupByString agrees with the iterator")
		c3, err := n.LookupBySegment(datamodel.PathSegmentOfString(v.Keys[k]))
		nd.Assert(err == nil && refval.Equal(refval.Of(c3), want), L+"LookupBySegment agrees with the iterator")
		c4, err := n.LookupByNode(basicnode.NewString(v.Keys[k]))
		nd.Assert(err == nil && refval.Equal(refval.Of(c4), want), L+"LookupByNode agrees with the iterator")
		if o.Deep {
			o2 := o
			o2.Label = L + "entry: "
			Check(c, want, o2)
		}
	}
	nd.Assert(it.Done(), L+"map iterator done after the last entry")
	_, _, err = it.Next()
	_, over := err.(datamodel.ErrIteratorOverread)
	nd.Assert(over, L+"map iterator overread is ErrIteratorOverread")
	// a symbolic key: present iff equal to one of the keys
	present := false
	for _, k := range v.Keys {
		present = nd.Or(present, o.Probe == k)
	}
	c, err := n.LookupByString(o.Probe)
	nd.Assert((err == nil) == present, L+"LookupByString succeeds exactly for the keys inserted")
	if err != nil {
		_, ne := err.(datamodel.ErrNotExists)
		nd.Assert(ne || o.Typed, L+"LookupByString of an absent key is ErrNotExists")
	} else {
		for k, want := range v.L {
			if o.Probe == v.Keys[k] {
				nd.Assert(refval.Equal(refval.Of(c), want), L+"LookupByString returns the value of that key")
			}
		}
	}
	_, err = n.LookupByIndex(0)
	nd.Assert(err != nil, L+"LookupByIndex on a map is an error")
}
