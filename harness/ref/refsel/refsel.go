// Package refsel is a denotational reference for the selector language over abstract values:
// which (path, node, reason) tuples a selector denotes on a graph, in which order. It is written
// from the selector specification and shares no code with traversal or traversal/selector.
package refsel

import (
	nd "github.com/ipld/go-ipld-prime/internal/verifnd"
	"github.com/ipld/go-ipld-prime/zzverif/ref/refval"
	"github.com/ipld/go-ipld-prime/zzverif/ref/selgen"
)

type Visit struct {
	Path   []Seg
	V      *refval.V
	Reason byte // 'm' matched, 'x' candidate
}

// Seg is a path segment: a map key or a list index.
type Seg struct {
	S     string
	I     int64
	IsInt bool
}

// state: a selector AST position plus its recursion context.
type state struct {
	s   *selgen.Sel
	rec *rec
}

type rec struct {
	r     *selgen.Sel // the 'R' clause
	depth int64       // remaining depth (when !r.LimitNone)
	outer *rec
}

// SliceBounds: the subset [from,to) of a sequence of the given length, Python style, clipped.
func SliceBounds(from, to, length int64) (ok bool, lo, hi int64) {
	if to < 0 {
		to += length
	} else if to > length {
		to = length
	}
	if from < 0 {
		from += length
		if from < 0 {
			from = 0
		}
	}
	if from > to || from >= length {
		return false, 0, 0
	}
	return true, from, to
}

// match: the node a state matches at n (possibly a slice of it), nil if it does not match.
func match(st []state, n *refval.V) *refval.V {
	for _, x := range st {
		s := x.s
		if s.Op != '.' {
			continue
		}
		if !s.Subset {
			return n
		}
		if n.K != refval.String && n.K != refval.Bytes {
			continue
		}
		ok, lo, hi := SliceBounds(s.From, s.To, int64(len(n.S)))
		if !ok {
			continue
		}
		return &refval.V{K: n.K, S: n.S[lo:hi]}
	}
	return nil
}

// step: the states that apply to child seg of n, given one state at n (nil: not explored).
func step(x state, n *refval.V, seg Seg, child *refval.V) []state {
	s := x.s
	switch s.Op {
	case 'a':
		return enter(state{s.Subs[0], x.rec}, child)
	case 'f':
		for i, f := range s.Fields {
			if segIsField(seg, f) {
				return enter(state{s.Subs[i], x.rec}, child)
			}
		}
	case 'i':
		if n.K == refval.List && seg.IsInt && seg.I == s.Index {
			return enter(state{s.Subs[0], x.rec}, child)
		}
	case 'r':
		if n.K == refval.List && seg.IsInt && seg.I >= s.Start && seg.I < s.End {
			return enter(state{s.Subs[0], x.rec}, child)
		}
	case '|':
		var out []state
		for _, m := range s.Subs {
			out = append(out, step(state{m, x.rec}, n, seg, child)...)
		}
		return out
	}
	return nil
}

func segIsField(seg Seg, f string) bool {
	if !seg.IsInt {
		return seg.S == f
	}
	// a numeric field name addresses a list element
	i, ok := parseIndex(f)
	return ok && i == seg.I
}

func parseIndex(f string) (int64, bool) {
	if len(f) == 0 || len(f) > 3 {
		return 0, false
	}
	var v int64
	for i := 0; i < len(f); i++ {
		if f[i] < '0' || f[i] > '9' {
			return 0, false
		}
		v = v*10 + int64(f[i]-'0')
	}
	return v, true
}

// enter resolves the clauses that take effect on arrival at a node: a recursion clause starts its
// sequence; an edge restarts the enclosing recursion's sequence with one level less.
func enter(x state, child *refval.V) []state { return enter2(x, child, false) }

// enter2: atStart is true while expanding the very start of a recursion sequence, where an edge
// (alone or as a union member) has no step to recurse on and selects nothing.
func enter2(x state, child *refval.V, atStart bool) []state {
	switch x.s.Op {
	case '|': // a union is the set of its members
		var out []state
		for _, m := range x.s.Subs {
			out = append(out, enter2(state{m, x.rec}, child, atStart)...)
		}
		return out
	case 'R':
		r := &rec{r: x.s, depth: x.s.Depth, outer: x.rec}
		st := enter2(state{x.s.Subs[0], r}, child, true)
		if len(st) == 0 {
			// the clause was selected but its sequence selects nothing here: a node reached
			// through it is still visited (as a candidate), nothing below it
			return []state{{&selgen.Sel{Op: '0'}, x.rec}}
		}
		return st
	case '@':
		r := x.rec
		if r == nil || atStart {
			return nil
		}
		if !r.r.LimitNone {
			if r.depth < 2 {
				return nil
			}
			return enter2(state{r.r.Subs[0], &rec{r: r.r, depth: r.depth - 1, outer: r.outer}}, child, true)
		}
		return enter2(state{r.r.Subs[0], r}, child, true)
	}
	return []state{x}
}

// interests: nil = every child in the node's own order; otherwise the segments in the selector's order.
func interests(st []state, n *refval.V) (all bool, segs []Seg) {
	for _, x := range st {
		switch x.s.Op {
		case 'a':
			return true, nil
		case 'r':
			if uint64(x.s.End)-uint64(x.s.Start) > 1024 {
				return true, nil
			}
		case '|':
			a, _ := interests(unionStates(x), n)
			if a {
				return true, nil
			}
		}
	}
	for _, x := range st {
		switch x.s.Op {
		case 'f':
			for _, f := range x.s.Fields {
				if n.K == refval.List {
					if i, ok := parseIndex(f); ok {
						segs = append(segs, Seg{I: i, IsInt: true})
					}
				} else {
					segs = append(segs, Seg{S: f})
				}
			}
		case 'i':
			segs = append(segs, Seg{I: x.s.Index, IsInt: true})
		case 'r':
			for i := x.s.Start; i < x.s.End; i++ {
				segs = append(segs, Seg{I: i, IsInt: true})
			}
		case '|':
			_, s2 := interests(unionStates(x), n)
			segs = append(segs, s2...)
		}
	}
	return false, segs
}

func unionStates(x state) []state {
	var out []state
	for _, m := range x.s.Subs {
		out = append(out, state{m, x.rec})
	}
	return out
}

type Walker struct {
	Visits  []Visit
	Loads   []*refval.V // link values loaded, in order
	MaxNode int
}

func (w *Walker) walk(n *refval.V, st []state, path []Seg) {
	if w.MaxNode > 0 && len(w.Visits) >= w.MaxNode {
		panic("refsel: reference walk exceeds the harness bound")
	}
	if m := match(st, n); m != nil {
		w.Visits = append(w.Visits, Visit{Path: path, V: m, Reason: 'm'})
	} else {
		w.Visits = append(w.Visits, Visit{Path: path, V: n, Reason: 'x'})
	}
	if n.K != refval.Map && n.K != refval.List {
		return
	}
	visitChild := func(seg Seg, c *refval.V) {
		var next []state
		for _, x := range st {
			next = append(next, step(x, n, seg, c)...)
		}
		if len(next) == 0 {
			return
		}
		if c.K == refval.Link {
			if stopped(st, c) {
				return
			}
			w.Loads = append(w.Loads, c)
			c = c.T
		}
		p2 := append(append([]Seg{}, path...), seg)
		w.walk(c, next, p2)
	}
	all, segs := interests(st, n)
	if all {
		for i, c := range n.L {
			if n.K == refval.Map {
				visitChild(Seg{S: n.Keys[i]}, c)
			} else {
				visitChild(Seg{I: int64(i), IsInt: true}, c)
			}
		}
		return
	}
	for _, seg := range segs {
		if n.K == refval.Map {
			key := seg.S
			if seg.IsInt {
				continue // symbolic decimal rendering of an index as a map key: outside the reference's bound
			}
			for i, k := range n.Keys {
				if k == key {
					visitChild(Seg{S: k}, n.L[i])
					break
				}
			}
		} else if seg.IsInt {
			for i, c := range n.L { // (a comparison per element instead of a symbolic index)
				if seg.I == int64(i) {
					visitChild(Seg{I: int64(i), IsInt: true}, c)
					break
				}
			}
		}
	}
}

// stopped: does a stop-at condition of an enclosing recursion name this link?
func stopped(st []state, l *refval.V) bool {
	for _, x := range st {
		for r := x.rec; r != nil; r = r.outer {
			if r.r.StopAt != nil && r.r.StopAt.S == l.S {
				return true
			}
		}
	}
	return false
}

// Walk computes the denotation of selector s on the graph rooted at root.
func Walk(s *selgen.Sel, root *refval.V) *Walker {
	w := &Walker{MaxNode: 200}
	w.walk(root, enter(state{s, nil}, root), nil)
	return w
}

var _ = nd.And
