// Package fnode is a minimal foreign Node implementation over an abstract value. It shares no
// type with basicnode, so the same-implementation shortcuts of builders and codecs do not
// apply to it and the generic code paths (datamodel.Copy, generic marshal) run.
package fnode

import (
	"math"

	"github.com/ipld/go-ipld-prime/datamodel"
	"github.com/ipld/go-ipld-prime/node/basicnode"
	"github.com/ipld/go-ipld-prime/zzverif/ref/gen"
	"github.com/ipld/go-ipld-prime/zzverif/ref/refval"
)

type Node struct{ V *refval.V }

// New wraps v. Uint values are represented by basicnode's uint node (the only UintNode the
// library knows), everything else by this implementation.
func New(v *refval.V) datamodel.Node {
	if v.K == refval.Uint {
		return basicnode.NewUint(v.U)
	}
	return &Node{v}
}

var kinds = map[refval.Kind]datamodel.Kind{refval.Null: datamodel.Kind_Null, refval.Bool: datamodel.Kind_Bool, refval.Int: datamodel.Kind_Int,
	refval.Float: datamodel.Kind_Float, refval.String: datamodel.Kind_String, refval.Bytes: datamodel.Kind_Bytes, refval.List: datamodel.Kind_List,
	refval.Map: datamodel.Kind_Map, refval.Link: datamodel.Kind_Link}

func (n *Node) Kind() datamodel.Kind { return kinds[n.V.K] }
func (n *Node) wrong(m string) error {
	return datamodel.ErrWrongKind{TypeName: "fnode", MethodName: m, ActualKind: n.Kind()}
}
func (n *Node) LookupByString(key string) (datamodel.Node, error) {
	if n.V.K != refval.Map {
		return nil, n.wrong("LookupByString")
	}
	for i, k := range n.V.Keys {
		if k == key {
			return New(n.V.L[i]), nil
		}
	}
	return nil, datamodel.ErrNotExists{Segment: datamodel.PathSegmentOfString(key)}
}
func (n *Node) LookupByNode(key datamodel.Node) (datamodel.Node, error) {
	if n.V.K == refval.List {
		i, err := key.AsInt()
		if err != nil {
			return nil, err
		}
		return n.LookupByIndex(i)
	}
	s, err := key.AsString()
	if err != nil {
		return nil, err
	}
	return n.LookupByString(s)
}
func (n *Node) LookupByIndex(idx int64) (datamodel.Node, error) {
	if n.V.K != refval.List {
		return nil, n.wrong("LookupByIndex")
	}
	if idx < 0 || idx >= int64(len(n.V.L)) {
		return nil, datamodel.ErrNotExists{Segment: datamodel.PathSegmentOfInt(idx)}
	}
	return New(n.V.L[idx]), nil
}
func (n *Node) LookupBySegment(seg datamodel.PathSegment) (datamodel.Node, error) {
	if n.V.K == refval.List {
		i, err := seg.Index()
		if err != nil {
			return nil, err
		}
		return n.LookupByIndex(i)
	}
	return n.LookupByString(seg.String())
}

type mapIt struct {
	n *Node
	i int
}

func (it *mapIt) Next() (datamodel.Node, datamodel.Node, error) {
	if it.i >= len(it.n.V.L) {
		return nil, nil, datamodel.ErrIteratorOverread{}
	}
	k, v := it.n.V.Keys[it.i], it.n.V.L[it.i]
	it.i++
	return &Node{refval.MkString(k)}, New(v), nil
}
func (it *mapIt) Done() bool { return it.i >= len(it.n.V.L) }

type listIt struct {
	n *Node
	i int
}

func (it *listIt) Next() (int64, datamodel.Node, error) {
	if it.i >= len(it.n.V.L) {
		return -1, nil, datamodel.ErrIteratorOverread{}
	}
	v := it.n.V.L[it.i]
	it.i++
	return int64(it.i - 1), New(v), nil
}
func (it *listIt) Done() bool { return it.i >= len(it.n.V.L) }

func (n *Node) MapIterator() datamodel.MapIterator {
	if n.V.K != refval.Map {
		return nil
	}
	return &mapIt{n: n}
}
func (n *Node) ListIterator() datamodel.ListIterator {
	if n.V.K != refval.List {
		return nil
	}
	return &listIt{n: n}
}
func (n *Node) Length() int64 {
	if n.V.K == refval.Map || n.V.K == refval.List {
		return int64(len(n.V.L))
	}
	return -1
}
func (n *Node) IsAbsent() bool { return false }
func (n *Node) IsNull() bool   { return n.V.K == refval.Null }
func (n *Node) AsBool() (bool, error) {
	if n.V.K != refval.Bool {
		return false, n.wrong("AsBool")
	}
	return n.V.B, nil
}
func (n *Node) AsInt() (int64, error) {
	if n.V.K != refval.Int {
		return 0, n.wrong("AsInt")
	}
	return n.V.I, nil
}
func (n *Node) AsFloat() (float64, error) {
	if n.V.K != refval.Float {
		return 0, n.wrong("AsFloat")
	}
	return math.Float64frombits(n.V.U), nil
}
func (n *Node) AsString() (string, error) {
	if n.V.K != refval.String {
		return "", n.wrong("AsString")
	}
	return n.V.S, nil
}
func (n *Node) AsBytes() ([]byte, error) {
	if n.V.K != refval.Bytes {
		return nil, n.wrong("AsBytes")
	}
	return []byte(n.V.S), nil
}
func (n *Node) AsLink() (datamodel.Link, error) {
	if n.V.K != refval.Link {
		return nil, n.wrong("AsLink")
	}
	return gen.LinkOf(n.V), nil
}
func (n *Node) Prototype() datamodel.NodePrototype { return basicnode.Prototype.Any }
