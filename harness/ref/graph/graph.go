// Package graph builds graphs of blocks joined by links, stored through the real link system in
// memory, together with their abstract description.
//
// Spec grammar: the shape grammar of ref/gen plus '<' value '>' = the value is encoded as DAG-CBOR,
// stored as its own block and replaced by a link to it. Links use the identity multihash (the CID
// carries the block's bytes, so distinct blocks never collide whatever the symbolic contents are).
package graph

import (
	"io"

	cid "github.com/ipfs/go-cid"
	mh "github.com/multiformats/go-multihash"

	"github.com/ipld/go-ipld-prime/datamodel"
	nd "github.com/ipld/go-ipld-prime/internal/verifnd"
	"github.com/ipld/go-ipld-prime/linking"
	cidlink "github.com/ipld/go-ipld-prime/linking/cid"
	"github.com/ipld/go-ipld-prime/node/basicnode"
	"github.com/ipld/go-ipld-prime/zzverif/ref/gen"
	"github.com/ipld/go-ipld-prime/zzverif/ref/refcbor"
	"github.com/ipld/go-ipld-prime/zzverif/ref/refval"

	_ "github.com/ipld/go-ipld-prime/codec/dagcbor"
)

type G struct {
	Root  datamodel.Node
	V     *refval.V
	LS    linking.LinkSystem
	Store *cidlink.Memory
	Opens []datamodel.Link // every link the storage was asked to open, in order
	Skip  func(datamodel.Link) bool
}

// split cuts spec at the top-level '<' '>' markers.
func build(g *G, spec string, pos *int, pfx string, seq *int) *refval.V {
	c := spec[*pos]
	switch c {
	case '<':
		*pos++
		inner := build(g, spec, pos, pfx, seq)
		if spec[*pos] != '>' {
			panic("graph: missing >")
		}
		*pos++
		// the block as it will be loaded: canonical map order
		blockV := refcbor.Canon(inner)
		enc := refcbor.Encode(nil, inner)
		m, err := mh.Encode(enc, mh.IDENTITY)
		if err != nil {
			panic(err)
		}
		lp := cidlink.LinkPrototype{Prefix: cidlink.Link{Cid: cidOf(m)}.Prefix()}
		lnk, err := g.LS.Store(linking.LinkContext{}, lp, gen.MustBuild(inner))
		if err != nil {
			panic("graph: store: " + err.Error())
		}
		l := refval.MkLink(lnk.(cidlink.Link).Cid.Bytes())
		l.T = blockV
		return l
	case '[':
		*pos++
		v := &refval.V{K: refval.List}
		for spec[*pos] != ']' {
			v.L = append(v.L, build(g, spec, pos, pfx, seq))
		}
		*pos++
		return v
	case '{':
		*pos++
		v := &refval.V{K: refval.Map}
		for spec[*pos] != '}' {
			if spec[*pos] == 'c' {
				*pos++
				v.Keys = append(v.Keys, string(rune('a'+len(v.Keys))))
			} else {
				kl := int(spec[*pos] - '0')
				*pos++
				*seq++
				v.Keys = append(v.Keys, nd.String(pfx+"k"+itoa(*seq), kl))
			}
			v.L = append(v.L, build(g, spec, pos, pfx, seq))
		}
		*pos++
		for i := range v.Keys {
			for j := 0; j < i; j++ {
				nd.Assume(v.Keys[i] != v.Keys[j])
			}
		}
		return v
	}
	// a leaf: delegate to gen (one leaf at a time keeps names unique)
	end := *pos + 1
	if c == 's' || c == 'b' {
		end++
	}
	*seq++
	leaf := gen.FromShape(pfx+itoa(*seq)+"_", spec[*pos:end])
	*pos = end
	return leaf
}

func itoa(i int) string {
	if i < 10 {
		return string(rune('0' + i))
	}
	return itoa(i/10) + string(rune('0'+i%10))
}

// New builds the graph of spec.
func New(pfx, spec string) *G {
	g := &G{Store: &cidlink.Memory{}}
	g.LS = cidlink.DefaultLinkSystem()
	g.LS.StorageWriteOpener = g.Store.OpenWrite
	g.LS.StorageReadOpener = func(lc linking.LinkContext, l datamodel.Link) (io.Reader, error) {
		g.Opens = append(g.Opens, l)
		return g.Store.OpenRead(lc, l)
	}
	pos, seq := 0, 0
	g.V = build(g, spec, &pos, pfx, &seq)
	g.Root = gen.MustBuild(g.V)
	return g
}

// Chooser is the prototype chooser for link targets.
func Chooser(datamodel.Link, linking.LinkContext) (datamodel.NodePrototype, error) {
	return basicnode.Prototype.Any, nil
}

func cidOf(m mh.Multihash) cid.Cid { return cid.NewCidV1(0x71, m) }
