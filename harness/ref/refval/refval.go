// Package refval is the abstract data-model value the harnesses use as oracle: what a node
// *denotes*, independent of any node implementation.
package refval

import (
	"io"
	"math"

	"github.com/ipld/go-ipld-prime/datamodel"
	nd "github.com/ipld/go-ipld-prime/internal/verifnd"
	cidlink "github.com/ipld/go-ipld-prime/linking/cid"
)

type Kind uint8

const (
	Invalid Kind = iota
	Null
	Bool
	Int   // within int64
	Uint  // above MaxInt64 (U holds the value)
	Float // U holds the IEEE-754 bits
	String
	Bytes
	List
	Map
	Link   // S holds the binary CID
	Absent // a typed struct's optional field that is not there (type-level view only)
)

type V struct {
	K    Kind
	B    bool
	I    int64
	U    uint64
	S    string
	L    []*V // list elements, or map values (parallel to Keys)
	Keys []string
	T    *V // for a Link built by ref/graph: the value of the block it points to (not part of equality)
}

func MkNull() *V             { return &V{K: Null} }
func MkBool(b bool) *V       { return &V{K: Bool, B: b} }
func MkInt(i int64) *V       { return &V{K: Int, I: i} }
func MkUint(u uint64) *V     { return &V{K: Uint, U: u} }
func MkFloat(bits uint64) *V { return &V{K: Float, U: bits} }
func MkString(s string) *V   { return &V{K: String, S: s} }
func MkBytes(b []byte) *V    { return &V{K: Bytes, S: string(b)} }
func MkLink(c []byte) *V     { return &V{K: Link, S: string(c)} }
func MkList(l ...*V) *V      { return &V{K: List, L: l} }
func MkMap(keys []string, vals []*V) *V {
	return &V{K: Map, Keys: keys, L: vals}
}

// Equal: same shape and kinds (concrete) and equal leaves (one boolean term).
func Equal(a, b *V) bool {
	if a == nil || b == nil {
		return a == b
	}
	if a.K != b.K {
		return false
	}
	switch a.K {
	case Null, Absent:
		return true
	case Bool:
		return a.B == b.B
	case Int:
		return a.I == b.I
	case Uint, Float:
		return a.U == b.U
	case String, Bytes, Link:
		return a.S == b.S
	case List:
		if len(a.L) != len(b.L) {
			return false
		}
		r := true
		for i := range a.L {
			r = nd.And(r, Equal(a.L[i], b.L[i]))
		}
		return r
	case Map:
		if len(a.L) != len(b.L) {
			return false
		}
		r := true
		for i := range a.L {
			r = nd.And(r, nd.And(a.Keys[i] == b.Keys[i], Equal(a.L[i], b.L[i])))
		}
		return r
	}
	return false
}

// Of reads a node through the public node API into an abstract value. Any error or
// inconsistency while reading yields a value of kind Invalid (never equal to a valid one).
func Of(n datamodel.Node) *V {
	if n == nil {
		return &V{}
	}
	switch n.Kind() {
	case datamodel.Kind_Null:
		if n.IsAbsent() {
			return &V{K: Absent}
		}
		if !n.IsNull() {
			return &V{}
		}
		return MkNull()
	case datamodel.Kind_Bool:
		b, err := n.AsBool()
		if err != nil {
			return &V{}
		}
		return MkBool(b)
	case datamodel.Kind_Int:
		if un, ok := n.(datamodel.UintNode); ok {
			u, err := un.AsUint()
			if err != nil {
				return &V{}
			}
			if u > math.MaxInt64 {
				return MkUint(u)
			}
			return MkInt(int64(u))
		}
		i, err := n.AsInt()
		if err != nil {
			return &V{}
		}
		return MkInt(i)
	case datamodel.Kind_Float:
		f, err := n.AsFloat()
		if err != nil {
			return &V{}
		}
		return MkFloat(math.Float64bits(f))
	case datamodel.Kind_String:
		s, err := n.AsString()
		if err != nil {
			return &V{}
		}
		return MkString(s)
	case datamodel.Kind_Bytes:
		b, err := n.AsBytes()
		if err != nil {
			return &V{}
		}
		return MkBytes(b)
	case datamodel.Kind_Link:
		l, err := n.AsLink()
		if err != nil {
			return &V{}
		}
		cl, ok := l.(cidlink.Link)
		if !ok {
			return &V{}
		}
		return MkLink(cl.Cid.Bytes())
	case datamodel.Kind_List:
		v := &V{K: List}
		it := n.ListIterator()
		for i := int64(0); !it.Done(); i++ {
			idx, c, err := it.Next()
			if err != nil || idx != i {
				return &V{}
			}
			v.L = append(v.L, Of(c))
		}
		if int64(len(v.L)) != n.Length() {
			return &V{}
		}
		return v
	case datamodel.Kind_Map:
		v := &V{K: Map}
		it := n.MapIterator()
		for !it.Done() {
			k, c, err := it.Next()
			if err != nil {
				return &V{}
			}
			ks, err := k.AsString()
			if err != nil {
				return &V{}
			}
			v.Keys = append(v.Keys, ks)
			v.L = append(v.L, Of(c))
		}
		if int64(len(v.L)) != n.Length() {
			return &V{}
		}
		return v
	}
	return &V{}
}

var _ = io.EOF

// Show renders a value for diagnostics (concrete parts only).
func Show(v *V) string {
	if v == nil {
		return "<nil>"
	}
	switch v.K {
	case Invalid:
		return "INVALID"
	case Null:
		return "null"
	case Absent:
		return "absent"
	case Bool:
		if v.B {
			return "true"
		}
		return "false"
	case Int:
		return "int"
	case Uint:
		return "uint"
	case Float:
		return "float"
	case String:
		return "s(" + v.S + ")"
	case Bytes:
		return "bytes"
	case Link:
		return "link"
	case List:
		s := "["
		for _, e := range v.L {
			s += Show(e) + " "
		}
		return s + "]"
	case Map:
		s := "{"
		for i, e := range v.L {
			s += v.Keys[i] + ":" + Show(e) + " "
		}
		return s + "}"
	}
	return "?"
}
