// Package lsys: link-system fixtures for the harnesses: a tiny "fold" hash registered through the
// real multihash registry (cryptographic hashes are not encoded symbolically), link builders and a
// storage reader with symbolic behaviour.
package lsys

import (
	"hash"
	"io"

	cid "github.com/ipfs/go-cid"
	mh "github.com/multiformats/go-multihash"

	nd "github.com/ipld/go-ipld-prime/internal/verifnd"
	cidlink "github.com/ipld/go-ipld-prime/linking/cid"
)

// FoldCode is a private-use multihash code for the 2-byte fold hash.
const FoldCode = 0x300001

// Fold16: position-dependent 2-byte digest (x: rotating xor, s: weighted sum + length).
type fold struct {
	x, s byte
	n    int
}

func step(x, s byte, n int, b byte) (byte, byte) {
	r := uint(n % 8)
	x ^= b<<r | b>>(8-r)
	s += b*byte(2*n+1) + 1
	return x, s
}

func (f *fold) Write(p []byte) (int, error) {
	for _, b := range p {
		f.x, f.s = step(f.x, f.s, f.n, b)
		f.n++
	}
	return len(p), nil
}
func (f *fold) Sum(b []byte) []byte { return append(b, f.x, f.s) }
func (f *fold) Reset()              { f.x, f.s, f.n = 0, 0, 0 }
func (f *fold) Size() int           { return 2 }
func (f *fold) BlockSize() int      { return 1 }

// Fold computes the fold digest of b (reference, independent of the hash.Hash plumbing).
func Fold(b []byte) (x, s byte) {
	for i, c := range b {
		x, s = step(x, s, i, c)
	}
	return
}

// fold32 stands in for sha2-256 (CIDv0 requires that code and a 32-byte digest): digest[i] =
// xor of the bytes at positions = i mod 32, digest[31] additionally mixed with the length.
type fold32 struct {
	d [32]byte
	n int
}

func (f *fold32) Write(p []byte) (int, error) {
	for _, b := range p {
		f.d[f.n%32] ^= b
		f.n++
	}
	return len(p), nil
}
func (f *fold32) Sum(b []byte) []byte {
	d := f.d
	d[31] ^= byte(f.n * 13)
	return append(b, d[:]...)
}
func (f *fold32) Reset()         { f.d, f.n = [32]byte{}, 0 }
func (f *fold32) Size() int      { return 32 }
func (f *fold32) BlockSize() int { return 1 }

func Fold32(b []byte) []byte {
	var d [32]byte
	for i, c := range b {
		d[i%32] ^= c
	}
	d[31] ^= byte(len(b) * 13)
	return d[:]
}

var registered bool

// Register installs the fold hashes in the real multihash registry (idempotent).
func Register() {
	if registered {
		return
	}
	registered = true
	mh.Register(FoldCode, func() hash.Hash { return &fold{} })
	mh.Register(mh.SHA2_256, func() hash.Hash { return &fold32{} })
}

// V1Link: CIDv1 with the given codec and multihash (code, digest).
func V1Link(codec uint64, code uint64, digest []byte) cidlink.Link {
	m, err := mh.Encode(digest, code)
	if err != nil {
		panic(err)
	}
	return cidlink.Link{Cid: cid.NewCidV1(codec, m)}
}

// Reader serves S in chunks of symbolic size and can fail at a symbolic offset.
type Reader struct {
	S       []byte
	pos     int
	FailAt  int // -1: never; otherwise Read at position FailAt returns Err
	Err     error
	Chunked bool
	Reads   int
	Eager   bool // deliver the last bytes together with io.EOF / the injected error (the io.Reader contract allows both)
}

func (r *Reader) Read(p []byte) (int, error) {
	r.Reads++
	if r.FailAt >= 0 && r.pos >= r.FailAt {
		return 0, r.Err
	}
	if r.pos >= len(r.S) {
		return 0, io.EOF
	}
	if len(p) == 0 {
		return 0, nil
	}
	n := len(r.S) - r.pos
	if n > len(p) {
		n = len(p)
	}
	if r.FailAt >= 0 && r.pos+n > r.FailAt {
		n = r.FailAt - r.pos
	}
	if r.Chunked && n > 1 {
		n = 1 + nd.Choose("chunk", n)
	}
	copy(p, r.S[r.pos:r.pos+n])
	r.pos += n
	if r.Eager && n > 0 {
		if r.FailAt >= 0 && r.pos >= r.FailAt {
			return n, r.Err
		}
		if r.pos >= len(r.S) {
			return n, io.EOF
		}
	}
	return n, nil
}
