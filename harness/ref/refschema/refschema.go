// Package refschema is the reference semantics of IPLD Schemas over abstract values, written from
// the schema specification: which typed values inhabit a type, what their representation is, and
// which data-model trees conform. It interprets the declarative descriptions of zzverif/schemas
// and shares no code with package schema, bindnode or the code generator.
//
// Conventions for typed (type-level) abstract values, as a typed node presents them:
// struct = Map of all fields in order (an absent optional field is Absent, a null nullable one
// Null); union = single-entry Map keyed by the member type name; enum = String member name.
package refschema

import (
	"math"

	"github.com/ipld/go-ipld-prime/datamodel"
	nd "github.com/ipld/go-ipld-prime/internal/verifnd"
	"github.com/ipld/go-ipld-prime/zzverif/ref/refval"
	"github.com/ipld/go-ipld-prime/zzverif/schemas"
)

type G struct {
	seq   int
	depth int
	// NarrowInts: every int inside a struct, map or list is in [0,24) (one CBOR head class):
	// for checks whose subject is structure, not integer encoding.
	NarrowInts bool
}

func (g *G) name(k string) string {
	g.seq++
	s := ""
	for n := g.seq; n > 0; n /= 10 {
		s = string(rune('0'+n%10)) + s
	}
	return k + s
}

// Gen builds an inhabitant of t with symbolic leaves; optional/nullable/union/enum/length choices are decisions.
func (g *G) Gen(t *schemas.T) *refval.V {
	switch t.Kind {
	case "int":
		i := nd.Int64(g.name("i"))
		if g.depth > 1 || (g.NarrowInts && g.depth > 0) {
			nd.Assume(i >= 0 && i < 24) // inside nested containers: one CBOR head class (keeps the path count down)
		}
		return refval.MkInt(i)
	case "string":
		return refval.MkString(nd.String(g.name("s"), 1))
	case "bool":
		return refval.MkBool(nd.Bool(g.name("t")))
	case "bytes":
		return refval.MkBytes(nd.Bytes(g.name("b"), 1))
	case "any":
		switch nd.Choose(g.name("anykind"), 5) {
		case 0:
			i := nd.Int64(g.name("i"))
			nd.Assume(i >= 0 && i < 24)
			return refval.MkInt(i)
		case 1:
			return refval.MkString(nd.String(g.name("s"), 1))
		case 2:
			return refval.MkBool(nd.Bool(g.name("t")))
		case 3:
			return refval.MkList(refval.MkInt(7), refval.MkNull())
		}
		return refval.MkMap([]string{"k"}, []*refval.V{refval.MkString(nd.String(g.name("s"), 1))})
	case "struct":
		g.depth++
		defer func() { g.depth-- }()
		v := &refval.V{K: refval.Map}
		for _, f := range t.Fields {
			v.Keys = append(v.Keys, f.Name)
			opts := 1
			if f.Optional {
				opts++
			}
			if f.Nullable {
				opts++
			}
			c := 0
			if opts > 1 {
				c = nd.Choose(g.name("maybe"), opts)
			}
			switch {
			case c == 0:
				fv := g.Gen(schemas.ByName(f.Type))
				if t.Repr == "stringjoin" {
					for i := 0; i < len(fv.S); i++ {
						nd.Assume(fv.S[i] != t.Delim[0]) // a joined field cannot contain the delimiter
					}
				}
				v.L = append(v.L, fv)
			case c == 1 && f.Optional:
				v.L = append(v.L, &refval.V{K: refval.Absent})
			default:
				v.L = append(v.L, refval.MkNull())
			}
		}
		if t.Repr == "tuple" {
			// a tuple has no way to say that a field before a present one is absent:
			// the inhabitants that have a representation are those whose absent fields are a suffix
			for i := range v.L {
				if v.L[i].K == refval.Absent {
					for j := i + 1; j < len(v.L); j++ {
						nd.Assume(v.L[j].K == refval.Absent)
					}
				}
			}
		}
		return v
	case "map":
		g.depth++
		defer func() { g.depth-- }()
		v := &refval.V{K: refval.Map}
		n := nd.Choose(g.name("len"), 3)
		if g.depth > 1 {
			n = 1
		}
		for i := 0; i < n; i++ {
			k := nd.String(g.name("k"), 1)
			for _, o := range v.Keys {
				nd.Assume(k != o)
			}
			v.Keys = append(v.Keys, k)
			v.L = append(v.L, g.genElem(t))
		}
		return v
	case "list":
		g.depth++
		defer func() { g.depth-- }()
		v := &refval.V{K: refval.List}
		n := nd.Choose(g.name("len"), 3)
		if g.depth > 1 {
			n = 1
		}
		for i := 0; i < n; i++ {
			v.L = append(v.L, g.genElem(t))
		}
		return v
	case "union":
		m := t.Members[nd.Choose(g.name("member"), len(t.Members))]
		return refval.MkMap([]string{m.Type}, []*refval.V{g.Gen(schemas.ByName(m.Type))})
	case "enum":
		m := t.Members[nd.Choose(g.name("member"), len(t.Members))]
		return refval.MkString(m.Type)
	}
	panic("refschema.Gen: " + t.Kind)
}

func (g *G) genElem(t *schemas.T) *refval.V {
	if t.ElemNullable && nd.Choose(g.name("null"), 2) == 1 {
		return refval.MkNull()
	}
	return g.Gen(schemas.ByName(t.Elem))
}

// Repr: the representation of typed value v of type t.
func Repr(t *schemas.T, v *refval.V) *refval.V {
	if v.K == refval.Null {
		return v
	}
	switch t.Kind {
	case "struct":
		switch t.Repr {
		case "map":
			r := &refval.V{K: refval.Map}
			for i, f := range t.Fields {
				if v.L[i].K == refval.Absent {
					continue // optional and absent: omitted
				}
				k := f.Name
				if f.Rename != "" {
					k = f.Rename
				}
				r.Keys = append(r.Keys, k)
				r.L = append(r.L, Repr(schemas.ByName(f.Type), v.L[i]))
			}
			return r
		case "tuple":
			r := &refval.V{K: refval.List}
			last := -1
			for i := range t.Fields {
				if v.L[i].K != refval.Absent {
					last = i
				}
			}
			for i := 0; i <= last; i++ {
				r.L = append(r.L, Repr(schemas.ByName(t.Fields[i].Type), v.L[i]))
			}
			return r
		case "stringjoin":
			s := ""
			for i := range t.Fields {
				if i > 0 {
					s += t.Delim
				}
				s += Repr(schemas.ByName(t.Fields[i].Type), v.L[i]).S
			}
			return refval.MkString(s)
		case "listpairs":
			r := &refval.V{K: refval.List}
			for i, f := range t.Fields {
				if v.L[i].K == refval.Absent {
					continue
				}
				r.L = append(r.L, refval.MkList(refval.MkString(f.Name), Repr(schemas.ByName(f.Type), v.L[i])))
			}
			return r
		}
	case "map":
		r := &refval.V{K: refval.Map, Keys: v.Keys}
		for _, e := range v.L {
			r.L = append(r.L, Repr(schemas.ByName(t.Elem), e))
		}
		return r
	case "list":
		r := &refval.V{K: refval.List}
		for _, e := range v.L {
			r.L = append(r.L, Repr(schemas.ByName(t.Elem), e))
		}
		return r
	case "union":
		var m schemas.M
		for _, x := range t.Members {
			if x.Type == v.Keys[0] {
				m = x
			}
		}
		inner := Repr(schemas.ByName(m.Type), v.L[0])
		switch t.Repr {
		case "keyed":
			return refval.MkMap([]string{m.Discr}, []*refval.V{inner})
		case "kinded":
			return inner
		case "stringprefix":
			return refval.MkString(m.Discr + t.Delim + inner.S)
		}
	case "enum":
		for _, m := range t.Members {
			if m.Type == v.S {
				if t.Repr == "int" {
					return refval.MkInt(int64(m.Int))
				}
				return refval.MkString(m.Discr)
			}
		}
	}
	return v // scalars represent themselves
}

var kinds = map[string]refval.Kind{"int": refval.Int, "string": refval.String, "bool": refval.Bool, "bytes": refval.Bytes}

// FromRepr: the typed value a representation-level tree r denotes for type t; ok=false when r
// does not conform to t.
func FromRepr(t *schemas.T, r *refval.V) (*refval.V, bool) {
	switch t.Kind {
	case "any":
		return r, true
	case "int", "string", "bool", "bytes":
		if r.K != kinds[t.Kind] {
			return nil, false
		}
		return r, true
	case "struct":
		v := &refval.V{K: refval.Map}
		for _, f := range t.Fields {
			v.Keys = append(v.Keys, f.Name)
		}
		v.L = make([]*refval.V, len(t.Fields))
		switch t.Repr {
		case "map":
			if r.K != refval.Map {
				return nil, false
			}
			for i, k := range r.Keys {
				found := false
				for j, f := range t.Fields {
					fk := f.Name
					if f.Rename != "" {
						fk = f.Rename
					}
					if fk == k {
						if v.L[j] != nil {
							return nil, false // repeated field
						}
						fv, ok := fromMaybe(f, r.L[i])
						if !ok {
							return nil, false
						}
						v.L[j], found = fv, true
						break
					}
				}
				if !found {
					return nil, false // unknown field
				}
			}
		case "tuple":
			if r.K != refval.List || len(r.L) > len(t.Fields) {
				return nil, false
			}
			for i := range r.L {
				fv, ok := fromMaybe(t.Fields[i], r.L[i])
				if !ok {
					return nil, false
				}
				v.L[i] = fv
			}
		case "stringjoin":
			if r.K != refval.String {
				return nil, false
			}
			parts := []string{""}
			for i := 0; i < len(r.S); i++ {
				if r.S[i] == t.Delim[0] {
					parts = append(parts, "")
				} else {
					parts[len(parts)-1] += r.S[i : i+1]
				}
			}
			if len(parts) != len(t.Fields) {
				return nil, false
			}
			for i := range parts {
				v.L[i] = refval.MkString(parts[i])
			}
		case "listpairs":
			if r.K != refval.List {
				return nil, false
			}
			for _, p := range r.L {
				if p.K != refval.List || len(p.L) != 2 || p.L[0].K != refval.String {
					return nil, false
				}
				found := false
				for j, f := range t.Fields {
					if f.Name == p.L[0].S {
						if v.L[j] != nil {
							return nil, false
						}
						fv, ok := fromMaybe(f, p.L[1])
						if !ok {
							return nil, false
						}
						v.L[j], found = fv, true
						break
					}
				}
				if !found {
					return nil, false
				}
			}
		}
		for j, f := range t.Fields {
			if v.L[j] == nil {
				if !f.Optional {
					return nil, false // a required field is missing
				}
				v.L[j] = &refval.V{K: refval.Absent}
			}
		}
		return v, true
	case "map":
		if r.K != refval.Map {
			return nil, false
		}
		for i := range r.Keys {
			for j := 0; j < i; j++ {
				if r.Keys[i] == r.Keys[j] {
					return nil, false // repeated key
				}
			}
		}
		v := &refval.V{K: refval.Map, Keys: r.Keys}
		for _, e := range r.L {
			if e.K == refval.Null && t.ElemNullable {
				v.L = append(v.L, e)
				continue
			}
			ev, ok := FromRepr(schemas.ByName(t.Elem), e)
			if !ok {
				return nil, false
			}
			v.L = append(v.L, ev)
		}
		return v, true
	case "list":
		if r.K != refval.List {
			return nil, false
		}
		v := &refval.V{K: refval.List}
		for _, e := range r.L {
			if e.K == refval.Null && t.ElemNullable {
				v.L = append(v.L, e)
				continue
			}
			ev, ok := FromRepr(schemas.ByName(t.Elem), e)
			if !ok {
				return nil, false
			}
			v.L = append(v.L, ev)
		}
		return v, true
	case "union":
		switch t.Repr {
		case "keyed":
			if r.K != refval.Map || len(r.L) != 1 {
				return nil, false
			}
			for _, m := range t.Members {
				if m.Discr == r.Keys[0] {
					iv, ok := FromRepr(schemas.ByName(m.Type), r.L[0])
					if !ok {
						return nil, false
					}
					return refval.MkMap([]string{m.Type}, []*refval.V{iv}), true
				}
			}
			return nil, false
		case "kinded":
			for _, m := range t.Members {
				if kindOf(r) == m.Kind {
					iv, ok := FromRepr(schemas.ByName(m.Type), r)
					if !ok {
						return nil, false
					}
					return refval.MkMap([]string{m.Type}, []*refval.V{iv}), true
				}
			}
			return nil, false
		case "stringprefix":
			if r.K != refval.String {
				return nil, false
			}
			for _, m := range t.Members {
				p := m.Discr + t.Delim
				if len(r.S) >= len(p) && r.S[:len(p)] == p {
					iv, ok := FromRepr(schemas.ByName(m.Type), refval.MkString(r.S[len(p):]))
					if !ok {
						return nil, false
					}
					return refval.MkMap([]string{m.Type}, []*refval.V{iv}), true
				}
			}
			return nil, false
		}
	case "enum":
		for _, m := range t.Members {
			if t.Repr == "int" {
				if r.K == refval.Int && r.I == int64(m.Int) {
					return refval.MkString(m.Type), true
				}
			} else if r.K == refval.String && r.S == m.Discr {
				return refval.MkString(m.Type), true
			}
		}
		return nil, false
	}
	return nil, false
}

func fromMaybe(f schemas.F, r *refval.V) (*refval.V, bool) {
	if r.K == refval.Null {
		return r, f.Nullable
	}
	return FromRepr(schemas.ByName(f.Type), r)
}

func kindOf(v *refval.V) datamodel.Kind {
	switch v.K {
	case refval.Int, refval.Uint:
		return datamodel.Kind_Int
	case refval.String:
		return datamodel.Kind_String
	case refval.Bool:
		return datamodel.Kind_Bool
	case refval.Bytes:
		return datamodel.Kind_Bytes
	case refval.Map:
		return datamodel.Kind_Map
	case refval.List:
		return datamodel.Kind_List
	case refval.Float:
		return datamodel.Kind_Float
	case refval.Null:
		return datamodel.Kind_Null
	case refval.Link:
		return datamodel.Kind_Link
	}
	return datamodel.Kind_Invalid
}

// ---- local mutations of a data-model tree (C09) ----

// Mutate applies one local mutation at a position chosen by decision: drop / duplicate / rename /
// swap / add a map entry, drop / add a list element, retype or null a scalar.
func (g *G) Mutate(v *refval.V) *refval.V {
	// descend or mutate here
	if (v.K == refval.Map || v.K == refval.List) && len(v.L) > 0 && nd.Choose(g.name("descend"), 2) == 1 {
		i := nd.Choose(g.name("child"), len(v.L))
		c := *v
		c.L = append([]*refval.V{}, v.L...)
		c.L[i] = g.Mutate(v.L[i])
		return &c
	}
	if (v.K == refval.Map || v.K == refval.List) && nd.Choose(g.name("rekind"), 2) == 1 {
		// another kind altogether: the empty container of the other kind, or a scalar
		return []*refval.V{refval.MkMap(nil, nil), refval.MkList(), refval.MkNull(), refval.MkString("x")}[nd.Choose(g.name("rekindto"), 4)]
	}
	switch v.K {
	case refval.Map:
		c := &refval.V{K: refval.Map, Keys: append([]string{}, v.Keys...), L: append([]*refval.V{}, v.L...)}
		op := nd.Choose(g.name("mapmut"), 5)
		if len(c.L) == 0 {
			op = 4
		}
		switch op {
		case 0: // drop
			i := nd.Choose(g.name("which"), len(c.L))
			c.Keys = append(c.Keys[:i:i], c.Keys[i+1:]...)
			c.L = append(c.L[:i:i], c.L[i+1:]...)
		case 1: // duplicate
			i := nd.Choose(g.name("which"), len(c.L))
			c.Keys = append(c.Keys, c.Keys[i])
			c.L = append(c.L, c.L[i])
		case 2: // rename to an arbitrary key (the solver decides whether it collides)
			i := nd.Choose(g.name("which"), len(c.L))
			// of the same length, or of the lengths the family's field and member names have
			kl := []int{len(c.Keys[i]), 1, 3}[nd.Choose(g.name("newkeylen"), 3)]
			c.Keys[i] = nd.String(g.name("newkey"), kl)
		case 3: // reorder
			if len(c.L) > 1 {
				c.Keys[0], c.Keys[1] = c.Keys[1], c.Keys[0]
				c.L[0], c.L[1] = c.L[1], c.L[0]
			}
		case 4: // an extra entry
			c.Keys = append(c.Keys, nd.String(g.name("extrakey"), 1))
			c.L = append(c.L, refval.MkInt(nd.Int64(g.name("extra"))))
		}
		return c
	case refval.List:
		c := &refval.V{K: refval.List, L: append([]*refval.V{}, v.L...)}
		if len(c.L) > 0 && nd.Choose(g.name("listmut"), 2) == 0 {
			c.L = c.L[:len(c.L)-1]
		} else {
			c.L = append(c.L, []*refval.V{refval.MkNull(), refval.MkInt(7), refval.MkString("x")}[nd.Choose(g.name("extra"), 3)])
		}
		return c
	}
	// scalars: another kind, or null
	alts := []*refval.V{refval.MkNull(), refval.MkInt(nd.Int64(g.name("ri"))), refval.MkString(nd.String(g.name("rs"), 1)), refval.MkBool(true), refval.MkMap(nil, nil), refval.MkList()}
	if v.K == refval.String {
		// same kind, other content: an arbitrary string two bytes longer (more delimiters, another prefix, no member)
		alts = append(alts, refval.MkString(nd.String(g.name("rl"), len(v.S)+2)))
		if len(v.S) > 1 {
			alts = append(alts, refval.MkString(nd.String(g.name("rq"), len(v.S)))) // an arbitrary string of the same length
		}
	}
	return alts[nd.Choose(g.name("retype"), len(alts))]
}

// Assign writes an abstract tree (typed or representation level) into an assembler; Absent
// entries are skipped. The first error is returned.
func Assign(na datamodel.NodeAssembler, v *refval.V) error {
	switch v.K {
	case refval.Null:
		return na.AssignNull()
	case refval.Bool:
		return na.AssignBool(v.B)
	case refval.Int:
		return na.AssignInt(v.I)
	case refval.Float:
		return na.AssignFloat(math.Float64frombits(v.U))
	case refval.String:
		return na.AssignString(v.S)
	case refval.Bytes:
		return na.AssignBytes([]byte(v.S))
	case refval.List:
		la, err := na.BeginList(int64(len(v.L)))
		if err != nil {
			return err
		}
		for _, c := range v.L {
			if err := Assign(la.AssembleValue(), c); err != nil {
				return err
			}
		}
		return la.Finish()
	case refval.Map:
		ma, err := na.BeginMap(int64(len(v.L)))
		if err != nil {
			return err
		}
		for i, c := range v.L {
			if c.K == refval.Absent {
				continue
			}
			va, err := ma.AssembleEntry(v.Keys[i])
			if err != nil {
				return err
			}
			if err := Assign(va, c); err != nil {
				return err
			}
		}
		return ma.Finish()
	}
	panic("refschema.Assign: unsupported value")
}

// AssignKV: as Assign, but map entries are supplied through AssembleKey().AssignString and
// AssembleValue() (the route codecs use) instead of AssembleEntry.
// Assign writes an abstract tree (typed or representation level) into an assembler; Absent
// entries are skipped. The first error is returned.
func AssignKV(na datamodel.NodeAssembler, v *refval.V) error {
	switch v.K {
	case refval.Null:
		return na.AssignNull()
	case refval.Bool:
		return na.AssignBool(v.B)
	case refval.Int:
		return na.AssignInt(v.I)
	case refval.Float:
		return na.AssignFloat(math.Float64frombits(v.U))
	case refval.String:
		return na.AssignString(v.S)
	case refval.Bytes:
		return na.AssignBytes([]byte(v.S))
	case refval.List:
		la, err := na.BeginList(int64(len(v.L)))
		if err != nil {
			return err
		}
		for _, c := range v.L {
			if err := AssignKV(la.AssembleValue(), c); err != nil {
				return err
			}
		}
		return la.Finish()
	case refval.Map:
		ma, err := na.BeginMap(int64(len(v.L)))
		if err != nil {
			return err
		}
		for i, c := range v.L {
			if c.K == refval.Absent {
				continue
			}
			if err := ma.AssembleKey().AssignString(v.Keys[i]); err != nil {
				return err
			}
			if err := AssignKV(ma.AssembleValue(), c); err != nil {
				return err
			}
		}
		return ma.Finish()
	}
	panic("refschema.Assign: unsupported value")
}
