// Package selgen enumerates selector ASTs (structure by decision, every integer a free symbolic
// int64, field names free bytes) and renders them as the data-model documents that
// selector.CompileSelector consumes.
package selgen

import (
	"fmt"

	nd "github.com/ipld/go-ipld-prime/internal/verifnd"
	"github.com/ipld/go-ipld-prime/zzverif/ref/refval"
)

type Sel struct {
	Op        byte // '.', 'a', 'f', 'i', 'r', '|', 'R', '@', 'x' (raw, possibly ill-typed document)
	Subset    bool
	From, To  int64
	Fields    []string
	Subs      []*Sel
	Index     int64
	Start     int64
	End       int64
	LimitNone bool
	Depth     int64
	StopAt    *refval.V // link value for the stop-at condition, nil if none
	Raw       *refval.V
}

type Gen struct {
	seq       int
	MaxDepth  int    // set by Top
	FieldLen  int    // bytes per symbolic field name
	Fields    int    // max fields in an ExploreFields
	Ops       string // operators allowed for inner nodes, e.g. ".afir|R"
	IllTyped  bool   // also generate raw ill-typed documents
	Subsets   bool
	ConcField []string    // if set, field names are chosen among these instead of being symbolic
	StopLinks []*refval.V // candidate links for a stop-at condition on a recursion clause
}

func (g *Gen) name(k string) string {
	g.seq++
	return fmt.Sprintf("%s%d", k, g.seq)
}

// Top builds one selector of nesting depth <= depth.
func (g *Gen) Top(depth int) *Sel {
	g.MaxDepth = depth
	return g.Gen(depth, false)
}

// Gen builds one selector of nesting depth <= depth; inRec: inside an ExploreRecursive sequence.
// To keep the number of ASTs polynomial, the second member of a union and the second field of a
// fields clause are leaves, and the full list of ill-typed documents is only used at the top.
func (g *Gen) Gen(depth int, inRec bool) *Sel {
	ops := g.Ops
	if depth <= 0 {
		ops = "."
		if inRec {
			ops = ".@"
		}
	} else if inRec {
		ops += "@"
	}
	if g.IllTyped {
		ops += "x"
	}
	op := ops[nd.Choose(g.name("op"), len(ops))]
	s := &Sel{Op: op}
	switch op {
	case '.':
		if g.Subsets && nd.Choose(g.name("subset"), 2) == 1 {
			s.Subset = true
			s.From, s.To = nd.Int64(g.name("from")), nd.Int64(g.name("to"))
		}
	case 'a':
		s.Subs = []*Sel{g.Gen(depth-1, inRec)}
	case 'f':
		n := 1 + nd.Choose(g.name("nf"), g.Fields)
		for i := 0; i < n; i++ {
			if len(g.ConcField) > 0 {
				s.Fields = append(s.Fields, g.ConcField[nd.Choose(g.name("fc"), len(g.ConcField))])
			} else {
				s.Fields = append(s.Fields, nd.String(g.name("fn"), g.FieldLen))
			}
			if i == 0 {
				s.Subs = append(s.Subs, g.Gen(depth-1, inRec))
			} else {
				s.Subs = append(s.Subs, g.Gen(0, inRec))
			}
		}
		for i := range s.Fields {
			for j := 0; j < i; j++ {
				nd.Assume(s.Fields[i] != s.Fields[j])
			}
		}
	case 'i':
		s.Index = nd.Int64(g.name("idx"))
		s.Subs = []*Sel{g.Gen(depth-1, inRec)}
	case 'r':
		s.Start, s.End = nd.Int64(g.name("start")), nd.Int64(g.name("end"))
		s.Subs = []*Sel{g.Gen(depth-1, inRec)}
	case '|':
		s.Subs = []*Sel{g.Gen(depth-1, inRec), g.Gen(0, inRec)}
	case 'R':
		if nd.Choose(g.name("lim"), 2) == 1 {
			s.LimitNone = true
		} else {
			s.Depth = nd.Int64(g.name("depth"))
		}
		s.Subs = []*Sel{g.Gen(depth-1, true)}
		if len(g.StopLinks) > 0 {
			if k := nd.Choose(g.name("stopat"), len(g.StopLinks)+1); k > 0 {
				s.StopAt = g.StopLinks[k-1]
			}
		}
	case '@':
	case 'x':
		raws := []*refval.V{refval.MkInt(nd.Int64(g.name("xi"))), refval.MkString("a"), refval.MkMap(nil, nil), refval.MkList(),
			refval.MkMap([]string{"a", "f"}, []*refval.V{refval.MkNull(), refval.MkNull()}),
			refval.MkMap([]string{"r"}, []*refval.V{refval.MkMap([]string{"^", "$"}, []*refval.V{refval.MkString("x"), refval.MkInt(1)})}),
			refval.MkMap([]string{"R"}, []*refval.V{refval.MkMap([]string{"l", ":>"}, []*refval.V{refval.MkMap(nil, nil), refval.MkNull()})}),
			refval.MkMap([]string{"|"}, []*refval.V{refval.MkMap(nil, nil)}),
			refval.MkMap([]string{"."}, []*refval.V{refval.MkMap([]string{"subset"}, []*refval.V{refval.MkMap([]string{"["}, []*refval.V{refval.MkInt(0)})})}),
			refval.MkMap([]string{"i"}, []*refval.V{refval.MkMap([]string{"i"}, []*refval.V{refval.MkFloat(0)})}),
			refval.MkNull(),
		}
		if depth < g.MaxDepth {
			raws = raws[:3]
		}
		s.Raw = raws[nd.Choose(g.name("raw"), len(raws))]
	}
	return s
}

func m(k string, v *refval.V) *refval.V { return refval.MkMap([]string{k}, []*refval.V{v}) }

// Doc renders the selector document.
func Doc(s *Sel) *refval.V {
	switch s.Op {
	case '.':
		if s.Subset {
			return m(".", m("subset", refval.MkMap([]string{"[", "]"}, []*refval.V{refval.MkInt(s.From), refval.MkInt(s.To)})))
		}
		return m(".", refval.MkMap(nil, nil))
	case 'a':
		return m("a", m(">", Doc(s.Subs[0])))
	case 'f':
		fm := &refval.V{K: refval.Map}
		for i, f := range s.Fields {
			fm.Keys = append(fm.Keys, f)
			fm.L = append(fm.L, Doc(s.Subs[i]))
		}
		return m("f", m("f>", fm))
	case 'i':
		return m("i", refval.MkMap([]string{"i", ">"}, []*refval.V{refval.MkInt(s.Index), Doc(s.Subs[0])}))
	case 'r':
		return m("r", refval.MkMap([]string{"^", "$", ">"}, []*refval.V{refval.MkInt(s.Start), refval.MkInt(s.End), Doc(s.Subs[0])}))
	case '|':
		return m("|", refval.MkList(Doc(s.Subs[0]), Doc(s.Subs[1])))
	case 'R':
		var lim *refval.V
		if s.LimitNone {
			lim = m("none", refval.MkMap(nil, nil))
		} else {
			lim = m("depth", refval.MkInt(s.Depth))
		}
		r := refval.MkMap([]string{"l", ":>"}, []*refval.V{lim, Doc(s.Subs[0])})
		if s.StopAt != nil {
			r.Keys = append(r.Keys, "!")
			r.L = append(r.L, m("/", s.StopAt))
		}
		return m("R", r)
	case '@':
		return m("@", refval.MkMap(nil, nil))
	}
	return s.Raw
}

// HasEdge: does the sequence contain a recursive edge belonging to this recursion level?
func HasEdge(s *Sel) bool {
	switch s.Op {
	case '@':
		return true
	case 'R':
		return false
	}
	for _, c := range s.Subs {
		if HasEdge(c) {
			return true
		}
	}
	return false
}

// HasEdgeEverywhere: every recursion clause of s has an edge in its sequence (what compilation requires).
func HasEdgeEverywhere(s *Sel) bool {
	if s.Op == 'R' && !HasEdge(s.Subs[0]) {
		return false
	}
	for _, c := range s.Subs {
		if !HasEdgeEverywhere(c) {
			return false
		}
	}
	return true
}
