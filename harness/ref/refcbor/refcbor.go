// Package refcbor is an independent reference for DAG-CBOR, written from RFC 8949 §4.2 and the
// DAG-CBOR specification: a canonical encoder and a strict decoder over abstract values. It shares
// no code with refmt or with codec/dagcbor.
package refcbor

import (
	cid "github.com/ipfs/go-cid"

	"github.com/ipld/go-ipld-prime/zzverif/ref/refval"
)

func Head(out []byte, major byte, v uint64) []byte {
	switch {
	case v < 24:
		return append(out, major<<5|byte(v))
	case v < 1<<8:
		return append(out, major<<5|24, byte(v))
	case v < 1<<16:
		return append(out, major<<5|25, byte(v>>8), byte(v))
	case v < 1<<32:
		return append(out, major<<5|26, byte(v>>24), byte(v>>16), byte(v>>8), byte(v))
	}
	return append(out, major<<5|27, byte(v>>56), byte(v>>48), byte(v>>40), byte(v>>32), byte(v>>24), byte(v>>16), byte(v>>8), byte(v))
}

// KeyLess is the DAG-CBOR map key order: shorter first, then bytewise.
func KeyLess(a, b string) bool {
	if len(a) != len(b) {
		return len(a) < len(b)
	}
	return a < b
}

// SortedOrder returns the permutation that puts keys in canonical order (selection sort: the
// comparisons are on symbolic strings, the executor forks on them).
func SortedOrder(keys []string) []int {
	used := make([]bool, len(keys))
	var ord []int
	for range keys {
		best := -1
		for j := range keys {
			if used[j] {
				continue
			}
			if best < 0 || KeyLess(keys[j], keys[best]) {
				best = j
			}
		}
		used[best] = true
		ord = append(ord, best)
	}
	return ord
}

// Encode appends the canonical DAG-CBOR encoding of v.
func Encode(out []byte, v *refval.V) []byte {
	switch v.K {
	case refval.Null:
		return append(out, 0xf6)
	case refval.Bool:
		if v.B {
			return append(out, 0xf5)
		}
		return append(out, 0xf4)
	case refval.Int:
		if v.I >= 0 {
			return Head(out, 0, uint64(v.I))
		}
		return Head(out, 1, uint64(-(v.I + 1)))
	case refval.Uint:
		return Head(out, 0, v.U)
	case refval.Float:
		u := v.U
		return append(out, 0xfb, byte(u>>56), byte(u>>48), byte(u>>40), byte(u>>32), byte(u>>24), byte(u>>16), byte(u>>8), byte(u))
	case refval.String:
		out = Head(out, 3, uint64(len(v.S)))
		return append(out, v.S...)
	case refval.Bytes:
		out = Head(out, 2, uint64(len(v.S)))
		return append(out, v.S...)
	case refval.Link:
		out = append(out, 0xd8, 0x2a)
		out = Head(out, 2, uint64(len(v.S)+1))
		out = append(out, 0)
		return append(out, v.S...)
	case refval.List:
		out = Head(out, 4, uint64(len(v.L)))
		for _, e := range v.L {
			out = Encode(out, e)
		}
		return out
	case refval.Map:
		out = Head(out, 5, uint64(len(v.L)))
		for _, i := range SortedOrder(v.Keys) {
			out = Head(out, 3, uint64(len(v.Keys[i])))
			out = append(out, v.Keys[i]...)
			out = Encode(out, v.L[i])
		}
		return out
	}
	panic("refcbor.Encode: invalid value")
}

// Canon returns v with every map's entries in canonical order.
func Canon(v *refval.V) *refval.V {
	switch v.K {
	case refval.List:
		n := &refval.V{K: refval.List}
		for _, e := range v.L {
			n.L = append(n.L, Canon(e))
		}
		return n
	case refval.Map:
		n := &refval.V{K: refval.Map}
		for _, i := range SortedOrder(v.Keys) {
			n.Keys = append(n.Keys, v.Keys[i])
			n.L = append(n.L, Canon(v.L[i]))
		}
		return n
	}
	return v
}

// ---- strict decoder ----

type Options struct {
	Relaxed    bool // non-minimal heads, NaN/Inf and duplicate keys tolerated
	NoLinks    bool // tag 42 rejected
	MaxDepth   int  // containers nested deeper are rejected (0: 1024)
	AllowTrail bool
}

type dec struct {
	in  []byte
	pos int
	o   Options
}

// head reads major type and argument; ok=false on truncation, reserved additional info
// (28..30), indefinite length (31) or, in strict mode, a non-minimal argument.
func (d *dec) head() (major, ai byte, v uint64, ok bool) {
	if d.pos >= len(d.in) {
		return 0, 0, 0, false
	}
	b := d.in[d.pos]
	d.pos++
	major, ai = b>>5, b&31
	var n int
	var min uint64
	switch {
	case ai < 24:
		return major, ai, uint64(ai), true
	case ai == 24:
		n, min = 1, 24
	case ai == 25:
		n, min = 2, 1<<8
	case ai == 26:
		n, min = 4, 1<<16
	case ai == 27:
		n, min = 8, 1<<32
	default:
		return major, ai, 0, false
	}
	if d.pos+n > len(d.in) {
		return major, ai, 0, false
	}
	for i := 0; i < n; i++ {
		v = v<<8 | uint64(d.in[d.pos+i])
	}
	d.pos += n
	if major != 7 && !d.o.Relaxed && v < min {
		return major, ai, v, false
	}
	return major, ai, v, true
}

// HalfToDouble converts IEEE-754 binary16 bits to binary64 bits (integer arithmetic only).
func HalfToDouble(h uint64) uint64 {
	s := (h >> 15) & 1
	e := (h >> 10) & 31
	m := h & 0x3ff
	switch {
	case e == 0 && m == 0:
		return s << 63
	case e == 0:
		// subnormal: value = m * 2^-24; normalise
		k := uint64(0)
		for m&0x400 == 0 {
			m <<= 1
			k++
		}
		m &= 0x3ff
		return s<<63 | (1023-15+1-k)<<52 | m<<42
	case e == 31:
		return s<<63 | 0x7ff<<52 | m<<42
	}
	return s<<63 | (e-15+1023)<<52 | m<<42
}

// SingleToDouble converts binary32 bits to binary64 bits (integer arithmetic only).
func SingleToDouble(f uint64) uint64 {
	s := (f >> 31) & 1
	e := (f >> 23) & 0xff
	m := f & 0x7fffff
	switch {
	case e == 0 && m == 0:
		return s << 63
	case e == 0:
		k := uint64(0)
		for m&0x800000 == 0 {
			m <<= 1
			k++
		}
		m &= 0x7fffff
		return s<<63 | (1023-127+1-k)<<52 | m<<29
	case e == 255:
		return s<<63 | 0x7ff<<52 | m<<29
	}
	return s<<63 | (e-127+1023)<<52 | m<<29
}

func (d *dec) item(depth int) (*refval.V, bool) {
	major, ai, v, ok := d.head()
	if !ok {
		return nil, false
	}
	maxDepth := d.o.MaxDepth
	if maxDepth == 0 {
		maxDepth = 1024
	}
	switch major {
	case 0:
		if v > 1<<63-1 {
			return refval.MkUint(v), true
		}
		return refval.MkInt(int64(v)), true
	case 1:
		if v > 1<<63-1 {
			return nil, false // below the int64 range
		}
		return refval.MkInt(-1 - int64(v)), true
	case 2, 3:
		if v > uint64(len(d.in)-d.pos) {
			return nil, false
		}
		s := d.in[d.pos : d.pos+int(v)]
		d.pos += int(v)
		if major == 2 {
			return refval.MkBytes(s), true
		}
		return refval.MkString(string(s)), true
	case 4:
		if depth >= maxDepth || v > uint64(len(d.in)-d.pos) {
			return nil, false
		}
		r := &refval.V{K: refval.List}
		for i := uint64(0); i < v; i++ {
			e, ok := d.item(depth + 1)
			if !ok {
				return nil, false
			}
			r.L = append(r.L, e)
		}
		return r, true
	case 5:
		if depth >= maxDepth || v > uint64(len(d.in)-d.pos) {
			return nil, false
		}
		r := &refval.V{K: refval.Map}
		for i := uint64(0); i < v; i++ {
			if d.pos >= len(d.in) || d.in[d.pos]>>5 != 3 {
				return nil, false // keys are text strings
			}
			k, ok := d.item(depth + 1)
			if !ok {
				return nil, false
			}
			if !d.o.Relaxed {
				for _, o := range r.Keys {
					if o == k.S {
						return nil, false
					}
				}
			}
			e, ok := d.item(depth + 1)
			if !ok {
				return nil, false
			}
			r.Keys = append(r.Keys, k.S)
			r.L = append(r.L, e)
		}
		return r, true
	case 6:
		// the only tag is 42, around a byte string holding 0x00 followed by a CID
		if v != 42 || d.o.NoLinks {
			return nil, false
		}
		if d.pos >= len(d.in) || d.in[d.pos]>>5 != 2 {
			return nil, false
		}
		b, ok := d.item(depth)
		if !ok {
			return nil, false
		}
		if len(b.S) < 1 || b.S[0] != 0 {
			return nil, false
		}
		if _, err := cid.Cast([]byte(b.S[1:])); err != nil {
			return nil, false
		}
		return refval.MkLink([]byte(b.S[1:])), true
	default:
		switch ai {
		case 20:
			return refval.MkBool(false), true
		case 21:
			return refval.MkBool(true), true
		case 22, 23: // null; undefined is read as null (documented tolerance)
			return refval.MkNull(), true
		case 25, 26, 27:
			var bits uint64
			switch ai {
			case 25:
				bits = HalfToDouble(v)
			case 26:
				bits = SingleToDouble(v)
			default:
				bits = v
			}
			if !d.o.Relaxed && (bits>>52)&0x7ff == 0x7ff {
				return nil, false // NaN, ±Inf
			}
			return refval.MkFloat(bits), true
		}
		return nil, false // other simple values
	}
}

// DecodeStrict: the value in denotes, ok=false when in is not exactly one well-formed DAG-CBOR item.
func DecodeStrict(in []byte, o Options) (*refval.V, bool) {
	d := &dec{in: in, o: o}
	v, ok := d.item(0)
	if !ok {
		return nil, false
	}
	if !o.AllowTrail && d.pos != len(in) {
		return nil, false
	}
	return v, true
}
