// Package gen builds abstract values with symbolic leaves from shape strings, and real nodes
// from abstract values through the builder API.
//
// Shape grammar:
//
//	value := 'n' null | 't' bool | 'i' int64 | 'u' uint64 above MaxInt64 | 'f' float (finite)
//	       | 's' D string of D bytes | 'b' D bytes of D bytes
//	       | 'l' link: CIDv1, free single-byte codec, identity multihash with 2 free digest bytes
//	       | 'L' link: CIDv0 (sha2-256 multihash, 2 free digest bytes, 30 fixed)
//	       | '[' value* ']' | '{' (D value)* '}'   D = key length in bytes, 'c' for the concrete key "a","b",…, or a quoted literal key
//
// Every leaf is a fresh symbolic value (all 2^64 ints, all byte strings of the stated length).
package gen

import (
	"fmt"
	"math"

	cid "github.com/ipfs/go-cid"

	"github.com/ipld/go-ipld-prime/datamodel"
	nd "github.com/ipld/go-ipld-prime/internal/verifnd"
	cidlink "github.com/ipld/go-ipld-prime/linking/cid"
	"github.com/ipld/go-ipld-prime/node/basicnode"
	"github.com/ipld/go-ipld-prime/zzverif/ref/refval"
)

type parser struct {
	s   string
	pos int
	seq int
	pfx string
}

func (p *parser) name(k string) string {
	p.seq++
	return fmt.Sprintf("%s%s%d", p.pfx, k, p.seq)
}

func (p *parser) digit() int {
	d := int(p.s[p.pos] - '0')
	p.pos++
	return d
}

func (p *parser) value() *refval.V {
	c := p.s[p.pos]
	p.pos++
	switch c {
	case 'n':
		return refval.MkNull()
	case 't':
		return refval.MkBool(nd.Bool(p.name("t")))
	case 'i':
		return refval.MkInt(nd.Int64(p.name("i")))
	case 'u':
		u := nd.Uint64(p.name("u"))
		nd.Assume(u > math.MaxInt64)
		return refval.MkUint(u)
	case 'f':
		f := nd.Float64bits(p.name("f"))
		nd.Assume((f>>52)&0x7ff != 0x7ff)
		return refval.MkFloat(f)
	case 's':
		return refval.MkString(nd.String(p.name("s"), p.digit()))
	case 'b':
		return refval.MkBytes(nd.Bytes(p.name("b"), p.digit()))
	case 'l':
		codec := nd.Byte(p.name("lc"))
		nd.Assume(codec < 0x80)
		d := nd.Bytes(p.name("ld"), 2)
		return refval.MkLink([]byte{1, codec, 0, 2, d[0], d[1]})
	case 'L':
		d := nd.Bytes(p.name("Ld"), 2)
		b := make([]byte, 34)
		b[0], b[1] = 0x12, 0x20
		for i := 2; i < 34; i++ {
			b[i] = byte(i * 7)
		}
		b[2], b[33] = d[0], d[1]
		return refval.MkLink(b)
	case '[':
		v := &refval.V{K: refval.List}
		for p.s[p.pos] != ']' {
			v.L = append(v.L, p.value())
		}
		p.pos++
		return v
	case '{':
		v := &refval.V{K: refval.Map}
		for p.s[p.pos] != '}' {
			if p.s[p.pos] == 'c' { // concrete key: "a", "b", ... by position
				p.pos++
				v.Keys = append(v.Keys, string(rune('a'+len(v.Keys))))
			} else if p.s[p.pos] == '"' { // literal key
				e := p.pos + 1
				for p.s[e] != '"' {
					e++
				}
				v.Keys = append(v.Keys, p.s[p.pos+1:e])
				p.pos = e + 1
			} else {
				kl := p.digit()
				v.Keys = append(v.Keys, nd.String(p.name("k"), kl))
			}
			v.L = append(v.L, p.value())
		}
		p.pos++
		return v
	}
	panic("gen: bad shape " + p.s)
}

// FromShape builds the abstract value of a shape; map keys are assumed pairwise distinct.
func FromShape(prefix, shape string) *refval.V {
	p := &parser{s: shape, pfx: prefix}
	v := p.value()
	AssumeDistinctKeys(v)
	return v
}

func AssumeDistinctKeys(v *refval.V) {
	for _, c := range v.L {
		AssumeDistinctKeys(c)
	}
	if v.K == refval.Map {
		for i := range v.Keys {
			for j := 0; j < i; j++ {
				nd.Assume(v.Keys[i] != v.Keys[j])
			}
		}
	}
}

// Permute returns v with the entries of every map in an order chosen by decision (all
// permutations are enumerated by the executor).
func Permute(name string, v *refval.V) *refval.V {
	switch v.K {
	case refval.List:
		n := &refval.V{K: refval.List}
		for _, c := range v.L {
			n.L = append(n.L, Permute(name, c))
		}
		return n
	case refval.Map:
		n := &refval.V{K: refval.Map}
		rest := make([]int, len(v.L))
		for i := range rest {
			rest[i] = i
		}
		for len(rest) > 0 {
			k := nd.Choose(name+"perm", len(rest))
			i := rest[k]
			rest = append(rest[:k:k], rest[k+1:]...)
			n.Keys = append(n.Keys, v.Keys[i])
			n.L = append(n.L, Permute(name, v.L[i]))
		}
		return n
	}
	return v
}

// LinkOf: the datamodel.Link for the binary CID held by a Link value.
func LinkOf(v *refval.V) datamodel.Link {
	c, err := cid.Cast([]byte(v.S))
	if err != nil {
		panic("gen: shape produced an invalid CID: " + err.Error())
	}
	return cidlink.Link{Cid: c}
}

// Assign writes v into the assembler with the plain routes (AssembleEntry / AssembleValue /
// AssignX); the first error is returned.
func Assign(na datamodel.NodeAssembler, v *refval.V) error {
	switch v.K {
	case refval.Null:
		return na.AssignNull()
	case refval.Bool:
		return na.AssignBool(v.B)
	case refval.Int:
		return na.AssignInt(v.I)
	case refval.Uint:
		return na.AssignNode(basicnode.NewUint(v.U))
	case refval.Float:
		return na.AssignFloat(math.Float64frombits(v.U))
	case refval.String:
		return na.AssignString(v.S)
	case refval.Bytes:
		return na.AssignBytes([]byte(v.S))
	case refval.Link:
		return na.AssignLink(LinkOf(v))
	case refval.List:
		la, err := na.BeginList(int64(len(v.L)))
		if err != nil {
			return err
		}
		for _, c := range v.L {
			if err := Assign(la.AssembleValue(), c); err != nil {
				return err
			}
		}
		return la.Finish()
	case refval.Map:
		ma, err := na.BeginMap(int64(len(v.L)))
		if err != nil {
			return err
		}
		for i, c := range v.L {
			va, err := ma.AssembleEntry(v.Keys[i])
			if err != nil {
				return err
			}
			if err := Assign(va, c); err != nil {
				return err
			}
		}
		return ma.Finish()
	}
	panic("gen.Assign: invalid value")
}

// Build builds v with a fresh builder of np.
func Build(np datamodel.NodePrototype, v *refval.V) (datamodel.Node, error) {
	nb := np.NewBuilder()
	if err := Assign(nb, v); err != nil {
		return nil, err
	}
	return nb.Build(), nil
}

// MustBuild is Build with basicnode.Prototype.Any; an error is a failed obligation.
func MustBuild(v *refval.V) datamodel.Node {
	n, err := Build(basicnode.Prototype.Any, v)
	nd.Assert(err == nil, "basicnode builder accepts the value")
	if err != nil {
		panic("gen.MustBuild: " + err.Error())
	}
	return n
}

// ScaleCases: the number of cases of Scale.
const ScaleCases = 9

// Scale: concrete values large in one dimension (n entries), for the one-path "scale" harnesses.
func Scale(which, n int) *refval.V {
	var v *refval.V
	switch which {
	case 0: // many bytes values
		v = &refval.V{K: refval.List}
		for i := 0; i < n; i++ {
			v.L = append(v.L, refval.MkBytes([]byte{byte(i), byte(i >> 8)}))
		}
	case 1: // many links
		cc, _ := cid.Decode("bafyreigh2akiscaildcqabsyg3dfr6chu3fgpregiymsck7e7aqa4s52zy")
		v = &refval.V{K: refval.List}
		for i := 0; i < n; i++ {
			v.L = append(v.L, refval.MkLink(cc.Bytes()))
		}
	case 2: // many small maps and lists
		v = &refval.V{K: refval.List}
		for i := 0; i < n; i++ {
			if i%2 == 0 {
				v.L = append(v.L, refval.MkMap([]string{"a"}, []*refval.V{refval.MkInt(int64(i))}))
			} else {
				v.L = append(v.L, refval.MkList(refval.MkNull()))
			}
		}
	case 3: // a wide map, inserted in descending order
		v = &refval.V{K: refval.Map}
		for i := n/4 - 1; i >= 0; i-- { // (the reference sort here is quadratic)
			v.Keys = append(v.Keys, string([]byte{'k', byte('0' + i/1000%10), byte('0' + i/100%10), byte('0' + i/10%10), byte('0' + i%10)}))
			v.L = append(v.L, refval.MkBool(i%2 == 0))
		}
	case 4: // deep nesting, alternating lists and maps
		v = refval.MkString("leaf")
		for i := 0; i < 40; i++ {
			if i%2 == 0 {
				v = refval.MkList(v)
			} else {
				v = refval.MkMap([]string{"/"}, []*refval.V{v})
			}
		}
	case 5: // keys ordered differently by bytes, UTF-16 units and code points
		v = refval.MkMap([]string{"k\U00010000", "k\uE000z", "k\uFFFF", "k\u00e9", "kz", "k"}, []*refval.V{refval.MkInt(1), refval.MkInt(2), refval.MkInt(3), refval.MkInt(4), refval.MkInt(5), refval.MkInt(6)})
	case 6: // strings needing every kind of escape
		v = refval.MkList(refval.MkString("\x00\x01\x1f\"\\/\u2028\u2029\x7f"), refval.MkString("\U0001F600\u00e9<>&"), refval.MkMap([]string{"\n\t\"", "\u2028"}, []*refval.V{refval.MkNull(), refval.MkNull()}))
	case 7: // many strings and numbers
		v = &refval.V{K: refval.List}
		for i := 0; i < n; i++ {
			if i%2 == 0 {
				v.L = append(v.L, refval.MkString(string([]byte{'s', byte('a' + i%26)})))
			} else {
				v.L = append(v.L, refval.MkInt(int64(i)*1000003-500))
			}
		}
	}
	if which == 8 { // one bytes value of a mebibyte and one byte (beyond every internal buffer and chunk size)
		b := make([]byte, 1<<20+1)
		for i := range b {
			b[i] = byte(i * 7)
		}
		v = refval.MkBytes(b)
	}
	return v
}
