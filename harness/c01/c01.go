// Package c01: what is built through the builder API is exactly what the node API reads back.
package c01

import (
	"math"

	"github.com/ipld/go-ipld-prime/datamodel"
	nd "github.com/ipld/go-ipld-prime/internal/verifnd"
	"github.com/ipld/go-ipld-prime/node/basicnode"
	"github.com/ipld/go-ipld-prime/node/bindnode"
	"github.com/ipld/go-ipld-prime/zzverif/ref/fnode"
	"github.com/ipld/go-ipld-prime/zzverif/ref/gen"
	"github.com/ipld/go-ipld-prime/zzverif/ref/nodecheck"
	"github.com/ipld/go-ipld-prime/zzverif/ref/refschema"
	"github.com/ipld/go-ipld-prime/zzverif/ref/refval"
	"github.com/ipld/go-ipld-prime/zzverif/schemas"
)

var shapes = []string{
	"i", "u", "f", "s2", "b2", "l", "n", "t",
	"[]", "{}", "[is1]", "{1i1s1}", "{2t0n}",
	"[[i]{1l}]", "{1{1i}1[f]}", "{1n1t1b1}", "[u{1u}]", "{1[s1b1]2{1n}}",
}

var protoFor = map[refval.Kind]datamodel.NodePrototype{
	refval.Null: basicnode.Prototype.Any, refval.Bool: basicnode.Prototype.Bool, refval.Int: basicnode.Prototype.Int, refval.Uint: basicnode.Prototype.Any, // only Any holds a uint node
	refval.Float: basicnode.Prototype.Float, refval.String: basicnode.Prototype.String, refval.Bytes: basicnode.Prototype.Bytes,
	refval.List: basicnode.Prototype.List, refval.Map: basicnode.Prototype.Map, refval.Link: basicnode.Prototype.Link,
}

// hint: an arbitrary size hint (negative ones included), bounded above because it is handed to make.
func hint(n int) int64 {
	h := nd.Int64("hint")
	nd.Assume(h <= 1<<16)
	_ = n
	return h
}

// assign writes v into na choosing, by decision, among every legal way of making the calls.
func assign(na datamodel.NodeAssembler, v *refval.V) error {
	switch v.K {
	case refval.List:
		switch nd.Choose("lroute", 3) {
		case 1:
			return na.AssignNode(gen.MustBuild(v))
		case 2:
			return na.AssignNode(fnode.New(v))
		}
		la, err := na.BeginList(hint(len(v.L)))
		if err != nil {
			return err
		}
		for _, c := range v.L {
			if err := assign(la.AssembleValue(), c); err != nil {
				return err
			}
		}
		return la.Finish()
	case refval.Map:
		r := nd.Choose("mroute", 4)
		switch r {
		case 2:
			return na.AssignNode(gen.MustBuild(v))
		case 3:
			return na.AssignNode(fnode.New(v))
		}
		ma, err := na.BeginMap(hint(len(v.L)))
		if err != nil {
			return err
		}
		for i, c := range v.L {
			var va datamodel.NodeAssembler
			if r == 0 {
				va, err = ma.AssembleEntry(v.Keys[i])
				if err != nil {
					return err
				}
			} else {
				ka := ma.AssembleKey()
				if nd.Choose("kroute", 2) == 0 {
					err = ka.AssignString(v.Keys[i])
				} else {
					err = ka.AssignNode(fnode.New(refval.MkString(v.Keys[i])))
				}
				if err != nil {
					return err
				}
				va = ma.AssembleValue()
			}
			if err := assign(va, c); err != nil {
				return err
			}
		}
		return ma.Finish()
	}
	// scalars: direct assignment or assignment of an existing node (own or foreign implementation)
	switch nd.Choose("sroute", 3) {
	case 1:
		return na.AssignNode(gen.MustBuild(v))
	case 2:
		return na.AssignNode(fnode.New(v))
	}
	return gen.Assign(na, v)
}

func build(v *refval.V) (datamodel.Node, bool) {
	var np datamodel.NodePrototype = basicnode.Prototype.Any
	if nd.Choose("proto", 2) == 1 {
		np = protoFor[v.K]
	}
	nb := np.NewBuilder()
	var err error
	nd.NoPanic("build", func() { err = assign(nb, v) })
	nd.Assert(err == nil, "every legal way of assembling the value succeeds")
	if err != nil {
		return nil, false
	}
	var n datamodel.Node
	nd.NoPanic("Build", func() { n = nb.Build() })
	return n, n != nil
}

// HBuildRead: build by any route, read back through every read API.
func HBuildRead() {
	v := gen.FromShape("", shapes[nd.Choose("shape", nd.Param("S", len(shapes)))])
	n, ok := build(v)
	if !ok {
		return
	}
	o := nodecheck.Opts{Probe: nd.String("probe", nd.Choose("probelen", 3)), ProbeIx: nd.Int64("probeix"), Deep: true}
	nd.NoPanic("read", func() { nodecheck.Check(n, v, o) })
	nd.Reach("end")
}

// HEqualCopy: two values of the same shape with independent leaves: DeepEqual agrees with abstract
// equality across implementations, and Copy yields an equal node.
func HEqualCopy() {
	// same shape with independent leaves, or (beyond the shape list) pairs of different shapes of the same kinds
	cross := [][2]string{{"i", "u"}, {"u", "i"}, {"[i]", "[u]"}, {"{1i}", "{1u}"}, {"s2", "b2"}, {"[]", "{}"}, {"n", "[]"}}
	si := nd.Choose("shape", nd.Param("S", len(shapes))+len(cross))
	var a, b *refval.V
	if si < nd.Param("S", len(shapes)) {
		a, b = gen.FromShape("a", shapes[si]), gen.FromShape("b", shapes[si])
	} else {
		p := cross[si-nd.Param("S", len(shapes))]
		a, b = gen.FromShape("a", p[0]), gen.FromShape("b", p[1])
	}
	mk := func(which int, v *refval.V) datamodel.Node {
		if which == 0 {
			return gen.MustBuild(v)
		}
		return fnode.New(v)
	}
	x := mk(nd.Choose("ximpl", 2), a)
	y := mk(nd.Choose("yimpl", 2), b)
	var eq bool
	nd.NoPanic("DeepEqual", func() { eq = datamodel.DeepEqual(x, y) })
	nd.Assert(eq == nodecheck.AbstractEqual(a, b), "DeepEqual agrees with equality of the abstract values")
	nd.NoPanic("DeepEqual self", func() { eq = datamodel.DeepEqual(x, x) })
	nd.Assert(eq, "DeepEqual is reflexive")
	// copy into a fresh builder
	var np datamodel.NodePrototype = basicnode.Prototype.Any
	if nd.Choose("proto", 2) == 1 {
		np = protoFor[a.K]
	}
	nb := np.NewBuilder()
	var err error
	nd.NoPanic("Copy", func() { err = datamodel.Copy(x, nb) })
	nd.Assert(err == nil, "Copy of a finite value succeeds")
	if err == nil {
		c := nb.Build()
		nd.Assert(nodecheck.AbstractEqual(refval.Of(c), a), "the copy denotes the same value")
		nd.NoPanic("DeepEqual copy", func() { eq = datamodel.DeepEqual(c, x) })
		nd.Assert(eq, "the copy is DeepEqual to the original")
		// the same builder, reset, then makes a copy of the other value: both copies denote their sources
		nb.Reset()
		var err2 error
		nd.NoPanic("Copy after Reset", func() { err2 = datamodel.Copy(y, nb) })
		if err2 == nil {
			c2 := nb.Build()
			// both copies come from the same (possibly kind-specific) prototype: same dynamic types
			nd.NoPanic("DeepEqual of two nodes of one prototype", func() {
				nd.Assert(datamodel.DeepEqual(c, c), "DeepEqual is reflexive on nodes of every prototype")
				nd.Assert(datamodel.DeepEqual(c2, c) == nodecheck.AbstractEqual(b, a), "DeepEqual of two nodes built by one prototype agrees with equality of the abstract values")
			})
			nd.Assert(nodecheck.AbstractEqual(refval.Of(c2), b), "a copy made with the reset builder denotes its source")
			nd.Assert(nodecheck.AbstractEqual(refval.Of(c), a), "and the earlier copy still denotes the first value")
		}
	}
	nd.Reach("end")
}

type mapU64 struct {
	Keys   []string
	Values map[string]uint64
}

type unionU64 struct {
	Int    *uint64
	String *string
}

type listU64 []uint64

// HTypedUint: uint64 values over their whole range (beyond MaxInt64 they travel as UintNode) in
// every position a typed (reflection-bound) node has — struct field, map value, list element,
// union member — assigned as an int, as a uint node, or copied from a node of another
// implementation: the entry is there and reads back as that value.
func HTypedUint() {
	ts := schemas.TypeSystem()
	u := nd.Uint64("u")
	want := refval.MkInt(int64(u))
	if u > math.MaxInt64 {
		want = refval.MkUint(u)
	}
	assign := func(na datamodel.NodeAssembler) error {
		switch nd.Choose("route", 3) {
		case 0:
			return na.AssignNode(basicnode.NewUint(u))
		case 1:
			return na.AssignNode(fnode.New(want))
		}
		if u > math.MaxInt64 {
			return na.AssignNode(basicnode.NewUint(u))
		}
		return na.AssignInt(int64(u))
	}
	var n datamodel.Node
	var v *refval.V
	var err error
	nd.NoPanic("assemble", func() {
		switch nd.Choose("position", 4) {
		case 0: // map value
			nb := bindnode.Prototype((*mapU64)(nil), ts.TypeByName("MapSI")).NewBuilder()
			ma, _ := nb.BeginMap(2)
			va, _ := ma.AssembleEntry("a")
			va.AssignInt(1)
			va, e := ma.AssembleEntry("k")
			if e == nil {
				e = assign(va)
			}
			if e == nil {
				e = ma.Finish()
			}
			err, n, v = e, nb.Build(), refval.MkMap([]string{"a", "k"}, []*refval.V{refval.MkInt(1), want})
		case 1: // union member
			nb := bindnode.Prototype((*unionU64)(nil), ts.TypeByName("UnionK")).NewBuilder()
			ma, _ := nb.BeginMap(1)
			va, e := ma.AssembleEntry("Int")
			if e == nil {
				e = assign(va)
			}
			if e == nil {
				e = ma.Finish()
			}
			err, n, v = e, nb.Build(), refval.MkMap([]string{"Int"}, []*refval.V{want})
		case 2: // list element
			nb := bindnode.Prototype((*listU64)(nil), ts.TypeByName("ListI")).NewBuilder()
			la, _ := nb.BeginList(2)
			e := assign(la.AssembleValue())
			if e == nil {
				e = la.AssembleValue().AssignInt(2)
			}
			if e == nil {
				e = la.Finish()
			}
			err, n, v = e, nb.Build(), refval.MkList(want, refval.MkInt(2))
		case 3: // struct field
			nb := bindnode.Prototype((*schemas.Narrow)(nil), ts.TypeByName("Narrow")).NewBuilder()
			ma, _ := nb.BeginMap(4)
			var e error
			for _, f := range []string{"N", "U", "W", "X"} {
				va, e2 := ma.AssembleEntry(f)
				if e2 != nil {
					e = e2
					break
				}
				if f == "X" {
					e = assign(va)
				} else {
					e = va.AssignInt(0)
				}
				if e != nil {
					break
				}
			}
			if e == nil {
				e = ma.Finish()
			}
			err, n, v = e, nb.Build(), refval.MkMap([]string{"N", "U", "W", "X"}, []*refval.V{refval.MkInt(0), refval.MkInt(0), refval.MkInt(0), want})
		}
	})
	nd.Assert(err == nil, "a uint64 value is accepted in every position of a typed node bound to uint64")
	if err == nil && n != nil {
		nd.Assert(refval.Equal(refval.Of(n), v), "and reads back as exactly that value, in its place")
		nd.Assert(n.Length() == int64(len(v.L)), "with the length of what was assembled")
	}
	nd.Reach("end")
}

// HTypedAny: typed containers of Any values (also nullable ones) hold arbitrary data-model values:
// what is assembled reads back through every accessor, iterator and lookup form.
func HTypedAny() {
	ts := schemas.TypeSystem()
	name := []string{"ListNA", "MapSA", "WithAny"}[nd.Choose("type", 3)]
	t := schemas.ByName(name)
	g := &refschema.G{NarrowInts: true}
	v := g.Gen(t)
	nb := bindnode.Prototype(nil, ts.TypeByName(name)).NewBuilder()
	var err error
	nd.NoPanic("assemble", func() { err = refschema.Assign(nb, v) })
	nd.Assert(err == nil, "a value of the type is accepted")
	if err != nil {
		return
	}
	n := nb.Build()
	nd.NoPanic("read", func() {
		nodecheck.Check(n, v, nodecheck.Opts{Probe: nd.String("probe", 1), ProbeIx: nd.Int64("probeix"), Deep: true, Typed: true})
	})
	var eq bool
	nd.NoPanic("DeepEqual / Copy", func() {
		nb2 := basicnode.Prototype.Any.NewBuilder()
		if datamodel.Copy(n, nb2) == nil && name != "WithAny" {
			eq = datamodel.DeepEqual(n, nb2.Build())
			nd.Assert(eq, "a generic copy of the typed node is DeepEqual to it")
		}
	})
	nd.Reach("end")
}

var _ = math.MaxInt64
