// Package c17: block storage is a faithful key-value map for arbitrary binary keys (in-memory stores).
package c17

import (
	"context"
	cid "github.com/ipfs/go-cid"
	_ "github.com/ipld/go-ipld-prime/codec/raw"
	"io"

	"github.com/ipld/go-ipld-prime/datamodel"
	nd "github.com/ipld/go-ipld-prime/internal/verifnd"
	"github.com/ipld/go-ipld-prime/linking"
	cidlink "github.com/ipld/go-ipld-prime/linking/cid"
	"github.com/ipld/go-ipld-prime/node/basicnode"
	"github.com/ipld/go-ipld-prime/storage"
	"github.com/ipld/go-ipld-prime/storage/memstore"
	"github.com/ipld/go-ipld-prime/zzverif/ref/lsys"
)

// basicOnly hides every optional interface of a store, so that the fallbacks of storage/funcs.go run.
type basicOnly struct{ s *memstore.Store }

func (b basicOnly) Has(ctx context.Context, k string) (bool, error)   { return b.s.Has(ctx, k) }
func (b basicOnly) Get(ctx context.Context, k string) ([]byte, error) { return b.s.Get(ctx, k) }
func (b basicOnly) Put(ctx context.Context, k string, c []byte) error { return b.s.Put(ctx, k, c) }

type rw interface {
	storage.ReadableStorage
	storage.WritableStorage
}

func readAll(r io.Reader) []byte {
	var out []byte
	buf := make([]byte, 4)
	for {
		n, err := r.Read(buf)
		out = append(out, buf[:n]...)
		if err != nil {
			return out
		}
	}
}

// HMemKeyValue: memstore, directly and behind the fallbacks, against an abstract map.
func HMemKeyValue() {
	ctx := context.Background()
	var st rw = &memstore.Store{}
	if nd.Choose("fallbacks", 2) == 1 {
		st = basicOnly{&memstore.Store{}}
	}
	nkeys := nd.Param("KEYS", 2)
	keys := make([]string, nkeys)
	vals := make([][]byte, nkeys)
	stored := make([]bool, nkeys)
	for i := range keys {
		keys[i] = nd.String("key", nd.Choose("klen", nd.Param("KEYLEN", 2)+1))
		vals[i] = nd.Bytes("val", nd.Choose("vlen", 3))
		for j := 0; j < i; j++ {
			nd.Assume(keys[i] != keys[j])
		}
	}
	scribble := func(b []byte) {
		for j := range b {
			b[j] ^= 0xff
		}
	}
	for op := 0; op < nd.Param("OPS", 3); op++ {
		i := nd.Choose("which", nkeys)
		switch nd.Choose("op", 7) {
		case 0:
			buf := append([]byte{}, vals[i]...)
			nd.Assert(storage.Put(ctx, st, keys[i], buf) == nil, "put succeeds")
			scribble(buf)
			stored[i] = true
		case 1:
			w, commit, err := storage.PutStream(ctx, st)
			nd.Assert(err == nil, "put-stream opens")
			h := len(vals[i]) / 2
			w.Write(vals[i][:h])
			w.Write(vals[i][h:])
			nd.Assert(commit(keys[i]) == nil, "commit succeeds")
			stored[i] = true
		case 2:
			h := len(vals[i]) / 2
			a, b := append([]byte{}, vals[i][:h]...), append([]byte{}, vals[i][h:]...)
			nd.Assert(storage.PutVec(ctx, st, keys[i], [][]byte{a, b}) == nil, "put-vec succeeds")
			scribble(a)
			scribble(b)
			stored[i] = true
		case 3:
			b, err := storage.Get(ctx, st, keys[i])
			nd.Assert((err == nil) == stored[i], "get succeeds exactly for the keys stored")
			if err == nil {
				nd.Assert(nd.EqBytes(b, vals[i]), "get returns exactly the bytes stored under that key")
				scribble(b) // a caller may do what it likes with the slice Get returned
			}
		case 4:
			r, err := storage.GetStream(ctx, st, keys[i])
			nd.Assert((err == nil) == stored[i], "get-stream succeeds exactly for the keys stored")
			if err == nil {
				nd.Assert(nd.EqBytes(readAll(r), vals[i]), "get-stream yields exactly the bytes stored under that key")
				r.Close()
			}
		case 5:
			b, c, err := storage.Peek(ctx, st, keys[i])
			nd.Assert((err == nil) == stored[i], "peek succeeds exactly for the keys stored")
			if err == nil {
				nd.Assert(nd.EqBytes(b, vals[i]), "peek returns exactly the bytes stored under that key")
				c.Close()
			}
		case 6:
			has, err := storage.Has(ctx, st, keys[i])
			nd.Assert(err == nil && has == stored[i], "has reports exactly the keys stored")
		}
	}
	// after the history: every key is reported and read as the abstract map has it
	for i := range keys {
		has, err := storage.Has(ctx, st, keys[i])
		nd.Assert(err == nil && has == stored[i], "after the history, has reports exactly the keys stored")
		b, err := storage.Get(ctx, st, keys[i])
		nd.Assert((err == nil) == stored[i], "after the history, get succeeds exactly for the keys stored")
		if err == nil && stored[i] {
			nd.Assert(nd.EqBytes(b, vals[i]), "after the history, get returns the bytes put under that key")
		}
	}
	nd.Reach("end")
}

// HLinkSystemStore: a link system writing through SetWriteStorage / SetReadStorage into a
// key-value store: after any history of Store calls (the same block again, other blocks) the
// store holds exactly one entry per distinct link, under that link's key, and nothing else.
func HLinkSystemStore() {
	ctx := context.Background()
	st := &memstore.Store{}
	ls := cidlink.DefaultLinkSystem()
	ls.SetWriteStorage(st)
	ls.SetReadStorage(st)
	lp := cidlink.LinkPrototype{Prefix: cid.Prefix{Version: 1, Codec: 0x55, MhType: 0, MhLength: -1}}
	vals := [][]byte{nd.Bytes("v0", 2), nd.Bytes("v1", 2)}
	nd.Assume(!nd.EqBytes(vals[0], vals[1]))
	seen := []bool{false, false}
	var links [2]datamodel.Link
	for op := 0; op < nd.Param("OPS", 3); op++ {
		i := nd.Choose("which", 2)
		l, err := ls.Store(linking.LinkContext{Ctx: ctx}, lp, basicnode.NewBytes(vals[i]))
		nd.Assert(err == nil, "Store succeeds (also for a block already present)")
		if err != nil {
			return
		}
		seen[i], links[i] = true, l
	}
	want := 0
	for i := range vals {
		if seen[i] {
			want++
			got, err := st.Get(ctx, links[i].Binary())
			nd.Assert(err == nil && nd.EqBytes(got, vals[i]), "every stored block is under its link's key")
		}
	}
	nd.Assert(len(st.Bag) == want, "the store holds exactly one entry per distinct block stored")
	has, err := st.Has(ctx, "")
	nd.Assert(err == nil && !has, "no entry appears under a key that was never stored (the empty key)")
	nd.Reach("end")
}

// HCidMemory: cidlink.Memory keyed by links whose multihash digests are free bytes.
func HCidMemory() {
	lsys.Register()
	st := &cidlink.Memory{}
	n := nd.Param("KEYS", 2)
	links := make([]cidlink.Link, n)
	vals := make([][]byte, n)
	stored := make([]bool, n)
	for i := range links {
		links[i] = lsys.V1Link(0x55, 0, nd.Bytes("digest", nd.Choose("dlen", 3)))
		vals[i] = nd.Bytes("val", nd.Choose("vlen", 3))
		for j := 0; j < i; j++ {
			nd.Assume(links[i].Binary() != links[j].Binary())
		}
	}
	for op := 0; op < nd.Param("OPS", 3); op++ {
		i := nd.Choose("which", n)
		if nd.Choose("op", 2) == 0 {
			w, commit, err := st.OpenWrite(linking.LinkContext{})
			nd.Assert(err == nil, "open write")
			buf := append([]byte{}, vals[i]...)
			w.Write(buf)
			for j := range buf {
				buf[j] ^= 0xff
			}
			nd.Assert(commit(links[i]) == nil, "commit")
			stored[i] = true
		} else {
			r, err := st.OpenRead(linking.LinkContext{}, datamodel.Link(links[i]))
			nd.Assert((err == nil) == stored[i], "a link can be read exactly when it was written")
			if err == nil {
				nd.Assert(nd.EqBytes(readAll(r), vals[i]), "and yields exactly the bytes written under it")
			}
		}
	}
	nd.Reach("end")
}
