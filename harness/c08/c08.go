// Package c08: type-level and representation views of a typed node obey the schema's strategy.
package c08

import (
	"bytes"

	"github.com/ipld/go-ipld-prime/codec/dagcbor"
	"github.com/ipld/go-ipld-prime/datamodel"
	nd "github.com/ipld/go-ipld-prime/internal/verifnd"
	"github.com/ipld/go-ipld-prime/schema"
	"github.com/ipld/go-ipld-prime/zzverif/ref/gen"
	"github.com/ipld/go-ipld-prime/zzverif/ref/nodecheck"
	"github.com/ipld/go-ipld-prime/zzverif/ref/refschema"
	"github.com/ipld/go-ipld-prime/zzverif/ref/refval"
	"github.com/ipld/go-ipld-prime/zzverif/schemas"
	"github.com/ipld/go-ipld-prime/zzverif/typed"
)

var bindTypes = []string{"Plain", "OptNull", "Tuple", "Join", "Pairs", "MapSI", "ListS", "UnionK", "UnionKinded", "UnionSP", "EnumS", "EnumI", "Outer", "Nested",
	"MapSU", "ListU", "MapSP", "ListT", "MapSN", "ListN", "OptComp", "OptMore", "UnionKinded2", "ListNP", "AllOpt", "Swap", "LeadOpt", "TupleOpt", "UnionSP2", "UnionSP0", "TupleON", "ListNA", "MapSA", "WithAny", "LeadOptLP", "EnumX", "OptOne", "ListOO", "MapOO"}
var genTypes = []string{"Plain", "OptNull", "Tuple", "Join", "MapSI", "ListS", "UnionK", "UnionKinded", "UnionSP", "Outer",
	"MapSU", "ListU", "MapSP", "ListT", "MapSN", "ListN", "OptComp", "OptMore", "UnionKinded2", "ListNP", "AllOpt", "Swap", "LeadOpt", "TupleOpt", "UnionSP2", "TupleON", "OptOne", "ListOO", "MapOO"}

func views(engine int, name string) {
	t := schemas.ByName(name)
	g := &refschema.G{NarrowInts: true} // (integer encodings are C02/C03's subject)
	v := g.Gen(t)
	want := refschema.Repr(t, v)
	proto := typed.Proto(engine, name)
	// through the type-level builder
	nb := proto.Type.NewBuilder()
	var err error
	nd.NoPanic("type-level build", func() { err = typed.Assign(nb, v) })
	nd.Assert(err == nil, "a value inhabiting the type is accepted by the type-level builder")
	if err != nil {
		return
	}
	n := nb.Build()
	nd.Assert(refval.Equal(refval.Of(n), v), "the type-level view presents the value")
	var rn datamodel.Node
	nd.NoPanic("Representation", func() { rn = n.(schema.TypedNode).Representation() })
	nd.Assert(rn != nil && refval.Equal(refval.Of(rn), want), "the representation view is the value transformed by the type's representation strategy")
	// through the representation builder
	nb2 := proto.Repr.NewBuilder()
	nd.NoPanic("representation build", func() { err = typed.Assign(nb2, want) })
	nd.Assert(err == nil, "the representation of an inhabitant is accepted by the representation builder")
	if err == nil {
		n2 := nb2.Build()
		nd.Assert(refval.Equal(refval.Of(n2), v), "building through the representation builder gives the same typed value")
		nd.NoPanic("DeepEqual", func() { nd.Assert(datamodel.DeepEqual(n, n2), "both builds are deeply equal") })
	}
	// assigning whole nodes: the typed node to a type-level builder, its representation and a
	// generic (basicnode) copy of the representation to representation builders
	for route := 0; route < 3; route++ {
		var nbx datamodel.NodeBuilder
		var src datamodel.Node
		switch route {
		case 0:
			nbx, src = proto.Type.NewBuilder(), n
		case 1:
			nbx, src = proto.Repr.NewBuilder(), rn
		case 2:
			nbx, src = proto.Repr.NewBuilder(), gen.MustBuild(want)
		}
		nd.NoPanic("AssignNode", func() { err = nbx.AssignNode(src) })
		nd.Assert(err == nil, "AssignNode of a node holding an inhabitant (typed, representation, generic) is accepted")
		if err == nil {
			nd.Assert(refval.Equal(refval.Of(nbx.Build()), v), "AssignNode builds the same typed value")
		}
	}
	// encode the representation, decode through the representation builder
	var buf bytes.Buffer
	nd.NoPanic("encode", func() { err = dagcbor.Encode(rn, &buf) })
	nd.Assert(err == nil, "the representation encodes")
	if err != nil {
		return
	}
	nb3 := proto.Repr.NewBuilder()
	nd.NoPanic("decode", func() { err = dagcbor.Decode(nb3, bytes.NewReader(buf.Bytes())) })
	nd.Assert(err == nil, "the encoded representation decodes through the representation builder")
	if err != nil {
		return
	}
	n3 := nb3.Build()
	nd.Assert(refval.Equal(refval.Of(n3), typed.CanonMaps(t, v)), "decoding reproduces the typed value (typed maps in the codec's key order)")
	var buf2 bytes.Buffer
	nd.NoPanic("re-encode", func() { err = dagcbor.Encode(n3.(schema.TypedNode).Representation(), &buf2) })
	nd.Assert(err == nil && nd.EqBytes(buf.Bytes(), buf2.Bytes()), "re-encoding reproduces the same bytes")
	nd.Reach("end")
}

// readAPI: the whole read API on both views of a built value: length, both iterators and every
// lookup form agree, kind-inappropriate accessors are wrong-kind errors, nothing panics.
func readAPI(engine int, name string) {
	t := schemas.ByName(name)
	g := &refschema.G{NarrowInts: true}
	v := g.Gen(t)
	want := refschema.Repr(t, v)
	proto := typed.Proto(engine, name)
	nb := proto.Type.NewBuilder()
	if typed.Assign(nb, v) != nil {
		return // acceptance is the subject of HBind / HGen
	}
	n := nb.Build()
	rn := n.(schema.TypedNode).Representation()
	probe := nd.String("probe", 1)
	if len(t.Fields) > 0 && nd.Choose("probefield", 2) == 1 {
		probe = t.Fields[nd.Choose("whichfield", len(t.Fields))].Name
	}
	o := nodecheck.Opts{Probe: probe, ProbeIx: nd.Int64("probeix"), Deep: true, Typed: true}
	nd.NoPanic("read API (type level)", func() { nodecheck.Check(n, v, o) })
	o.Label = "repr: "
	nd.NoPanic("read API (representation)", func() { nodecheck.Check(rn, want, o) })
	nd.Reach("end")
}

// HReadBind / HReadGen: the read API of typed nodes and their representations.
func HReadBind() {
	readAPI(nd.Choose("inferred", 2), pick(bindTypes))
}
func HReadGen() {
	readAPI(typed.Generated, pick(genTypes))
}

// pick: one type of the list; with BIG=0 the four largest compositions (whose parts are in the
// list on their own) are left to the thorough tier.
func pick(all []string) string {
	var l []string
	for _, n := range all {
		if nd.Param("BIG", 1) == 0 && (n == "Outer" || n == "Nested" || n == "ListOO" || n == "MapOO") {
			continue
		}
		l = append(l, n)
	}
	return l[nd.Choose("type", len(l))]
}

// HBind: bindnode with user-supplied Go types, and with inferred Go types.
func HBind() {
	name := bindTypes[nd.Choose("type", nd.Param("TYPES", len(bindTypes)))]
	views(nd.Choose("inferred", 2), name)
}

// HGen: the code generated from the working tree.
func HGen() {
	views(typed.Generated, genTypes[nd.Choose("type", nd.Param("TYPES", len(genTypes)))])
}
