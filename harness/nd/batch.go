//go:build !gosx

package verifnd

import (
	"bufio"
	"encoding/json"
	"fmt"
	"os"
	"runtime/debug"
)

// BatchCase is one native execution request: a harness and one assignment of its inputs.
type BatchCase struct {
	ID      string            `json:"id"`
	Harness string            `json:"harness"`
	Vals    map[string]uint64 `json:"vals"`
	Known   []string          `json:"known"`
}

// BatchResult is what the native run of the real code did.
type BatchResult struct {
	ID            string   `json:"id"`
	Failures      []string `json:"failures"`
	Reached       []string `json:"reached"`
	Obs           []string `json:"obs"`
	KnownHit      []string `json:"known_hit"`
	Notes         []string `json:"notes,omitempty"`
	AssumeFailed  bool     `json:"assume_failed"`
	Panic         string   `json:"panic,omitempty"`
	UnknownHarnes bool     `json:"unknown_harness,omitempty"`
}

func runOne(h func(), c BatchCase) (res BatchResult) {
	r := &Run{Vals: c.Vals, Known: map[string]bool{}}
	for _, k := range c.Known {
		r.Known[k] = true
	}
	SetRun(r)
	res.ID = c.ID
	defer func() {
		if p := recover(); p != nil {
			switch p.(type) {
			case AssumeViolated:
				res.AssumeFailed = true
			case KnownFindingHit:
			default:
				res.Panic = fmt.Sprintf("%v\n%s", p, debug.Stack())
			}
		}
		res.Failures, res.Reached, res.Obs, res.KnownHit, res.Notes = r.Failures, r.Reached, r.Obs, r.KnownHit, r.Notes
	}()
	h()
	return
}

// BatchMain runs every case of $VERIF_BATCH (JSON lines) and writes results to $VERIF_OUT.
// Returns false when nothing was requested.
func BatchMain(hs map[string]func()) bool {
	in := os.Getenv("VERIF_BATCH")
	if in == "" {
		return false
	}
	f, err := os.Open(in)
	if err != nil {
		panic(err)
	}
	defer f.Close()
	out, err := os.Create(os.Getenv("VERIF_OUT"))
	if err != nil {
		panic(err)
	}
	defer out.Close()
	w := bufio.NewWriter(out)
	defer w.Flush()
	sc := bufio.NewScanner(f)
	sc.Buffer(make([]byte, 1<<20), 1<<26)
	for sc.Scan() {
		var c BatchCase
		if err := json.Unmarshal(sc.Bytes(), &c); err != nil {
			panic(err)
		}
		h, ok := hs[c.Harness]
		var res BatchResult
		if !ok {
			res = BatchResult{ID: c.ID, UnknownHarnes: true}
		} else {
			res = runOne(h, c)
		}
		b, _ := json.Marshal(res)
		w.Write(b)
		w.WriteByte('\n')
		w.Flush()
	}
	return true
}
