// Package verifnd is the "nondet" API of the verification harnesses.
//
// Under the symbolic executor (gosx) the leaf functions of this package (marked INTERCEPTED) are
// not executed: the engine replaces them by fresh SMT variables, decisions, assumptions and proof
// obligations. Compiled natively, the same functions read the values of one solver model (or of a
// seeded concrete run) from the current *Run, so that a harness replays a counterexample, or a
// sampled path, against the real build.
package verifnd

import (
	"fmt"
	"runtime"
	"sync"
)

// Run is the native state of one harness execution.
type Run struct {
	Vals     map[string]uint64 // variable name -> value (model); "choose:<name>", "param:<name>" too
	Known    map[string]bool   // known-finding ids that are active
	Failures []string
	Reached  []string
	Obs      []string
	KnownHit []string
	Notes    []string // native only: messages of recovered panics
	seq      map[string]int
}

var cur = &Run{Vals: map[string]uint64{}, seq: map[string]int{}}

// SetRun installs the state for the next native harness execution.
func SetRun(r *Run) {
	if r.Vals == nil {
		r.Vals = map[string]uint64{}
	}
	r.seq = map[string]int{}
	cur = r
}

type AssumeViolated struct{}
type KnownFindingHit struct{ ID string }

// mu guards the native run state (leaf functions may be called from the two goroutines of Concurrent).
var mu sync.Mutex

func fresh(base string) string {
	mu.Lock()
	defer mu.Unlock()
	n := cur.seq[base]
	cur.seq[base] = n + 1
	if n == 0 {
		return base
	}
	return fmt.Sprintf("%s!%d", base, n)
}

// Param returns a bound of the harness (chosen by the check's tier), def when not configured. INTERCEPTED.
func Param(name string, def int) int {
	if v, ok := cur.Vals["param:"+name]; ok {
		return int(int64(v))
	}
	return def
}

// Bytes returns n arbitrary bytes. INTERCEPTED.
func Bytes(name string, n int) []byte {
	name = fresh(name)
	b := make([]byte, n)
	for i := range b {
		b[i] = byte(cur.Vals[fmt.Sprintf("%s_%d", name, i)])
	}
	return b
}

// String returns an arbitrary string of n bytes. INTERCEPTED.
func String(name string, n int) string { return string(Bytes(name, n)) }

// Int64, Uint64, Int, Byte, Bool, Float64bits: one arbitrary value. INTERCEPTED.
func Int64(name string) int64        { return int64(cur.Vals[fresh(name)]) }
func Uint64(name string) uint64      { return cur.Vals[fresh(name)] }
func Int(name string) int            { return int(int64(cur.Vals[fresh(name)])) }
func Byte(name string) byte          { return byte(cur.Vals[fresh(name)]) }
func Bool(name string) bool          { return cur.Vals[fresh(name)] != 0 }
func Float64bits(name string) uint64 { return cur.Vals[fresh(name)] }

// Choose returns a value in [0,n): a structural decision the executor enumerates. INTERCEPTED.
func Choose(name string, n int) int {
	v := int(cur.Vals["choose:"+fresh(name)])
	if v < 0 || v >= n {
		return 0
	}
	return v
}

// Assume restricts the inputs under consideration. INTERCEPTED.
func Assume(c bool) {
	if !c {
		panic(AssumeViolated{})
	}
}

// Assert states a proof obligation. INTERCEPTED.
func Assert(c bool, msg string) {
	if !c {
		mu.Lock()
		cur.Failures = append(cur.Failures, msg)
		mu.Unlock()
	}
}

// Reach marks a program point that some feasible path must reach (vacuity guard). INTERCEPTED.
func Reach(label string) {
	mu.Lock()
	cur.Reached = append(cur.Reached, label)
	mu.Unlock()
}

// Freeze makes everything allocated so far, and all package-level variables, read-only for the
// write monitor (C20). No native effect. INTERCEPTED.
func Freeze() {}

// Thaw ends the monitored region. INTERCEPTED.
func Thaw() {}

// EqBytes is bytes.Equal as one term (no fork per byte). INTERCEPTED.
func EqBytes(a, b []byte) bool {
	if len(a) != len(b) {
		return false
	}
	for i := range a {
		if a[i] != b[i] {
			return false
		}
	}
	return true
}

// KnownFinding: when id is listed as known and c can hold, the executor reports the finding and
// continues under !c; when id is not listed (or listed as fixed) it does nothing. INTERCEPTED.
func KnownFinding(id string, c bool) {
	if c && cur.Known[id] {
		cur.KnownHit = append(cur.KnownHit, id)
		panic(KnownFindingHit{id})
	}
}

// Observe*: append a value to the observation log compared between the engine and the native
// run of the same model (translator validation). INTERCEPTED.
func ObserveInt(name string, v int64) {
	cur.Obs = append(cur.Obs, fmt.Sprintf("%s=%x", name, uint64(v)))
}
func ObserveBool(name string, v bool)     { cur.Obs = append(cur.Obs, fmt.Sprintf("%s=%v", name, v)) }
func ObserveBytes(name string, v []byte)  { cur.Obs = append(cur.Obs, fmt.Sprintf("%s=%x", name, v)) }
func ObserveString(name string, v string) { cur.Obs = append(cur.Obs, fmt.Sprintf("%s=%x", name, v)) }

// Fail is Assert(false, msg).
func Fail(msg string) { Assert(false, msg) }

// Panics runs f and reports whether it panicked (assumption and known-finding signals pass through).
func Panics(f func()) (panicked bool) {
	defer func() {
		if r := recover(); r != nil {
			switch r.(type) {
			case AssumeViolated, KnownFindingHit:
				panic(r)
			}
			panicked = true
			cur.Notes = append(cur.Notes, fmt.Sprint(r))
		}
	}()
	f()
	return false
}

// NoPanic runs f; a panic is a violated obligation named label.
func NoPanic(label string, f func()) {
	if Panics(f) {
		Assert(false, "panic: "+label)
	}
}

// And, Or, Not, Implies, Ite*: boolean connectives evaluated without short-circuit, so that the
// executor builds one term instead of forking. INTERCEPTED.
func And(a, b bool) bool     { return a && b }
func Or(a, b bool) bool      { return a || b }
func Implies(a, b bool) bool { return !a || b }
func Iff(a, b bool) bool     { return a == b }
func IteInt(c bool, a, b int64) int64 {
	if c {
		return a
	}
	return b
}
func IteByte(c bool, a, b byte) byte {
	if c {
		return a
	}
	return b
}
func IteBool(c bool, a, b bool) bool {
	if c {
		return a
	}
	return b
}

// AllocStart resets the allocation counter; AllocBytes returns the bytes requested through
// make/new/append/map growth since then. Under the executor this is a term over the symbolic
// sizes; natively it is the runtime's TotalAlloc delta. INTERCEPTED.
func AllocStart() {
	var ms runtime.MemStats
	runtime.ReadMemStats(&ms)
	allocBase = ms.TotalAlloc
}

func AllocBytes() int64 {
	var ms runtime.MemStats
	runtime.ReadMemStats(&ms)
	return int64(ms.TotalAlloc - allocBase)
}

var allocBase uint64

// ---- cooperative threads (C18): exactly one thread runs at a time; control changes hands only at
// Yield, where the next runnable thread is a decision ("sched"). Under the executor Go, Yield and
// WaitAll are INTERCEPTED; natively they are implemented with goroutines passing a baton, so a
// schedule found by the executor replays deterministically.

type coThread struct {
	resume chan struct{}
	done   bool
}

var (
	coThreads []*coThread
	coCur     *coThread
	coMain    = &coThread{resume: make(chan struct{})}
	coPanic   interface{}
)

func coReset() {
	coThreads, coCur, coPanic = nil, nil, nil
	coMain = &coThread{resume: make(chan struct{})}
}

// Go registers f as a new thread; it starts running when a Yield or WaitAll schedules it.
func Go(f func()) {
	if coCur == nil {
		coCur = coMain
	}
	t := &coThread{resume: make(chan struct{})}
	coThreads = append(coThreads, t)
	go func() {
		<-t.resume
		defer func() {
			if r := recover(); r != nil && coPanic == nil {
				coPanic = r
			}
			t.done = true
			coSwitch(t)
		}()
		f()
	}()
}

func coRunnable(except *coThread) []*coThread {
	var rs []*coThread
	for _, t := range coThreads {
		if !t.done && t != except {
			rs = append(rs, t)
		}
	}
	return rs
}

// coSwitch: the running thread `from` gives up control (or has finished).
func coSwitch(from *coThread) {
	cands := coRunnable(nil)
	if from != coMain && from.done {
		// a finished thread hands over to another runnable thread, or back to main
	}
	var next *coThread
	if coPanic != nil || len(cands) == 0 {
		next = coMain
	} else {
		// the candidates: every unfinished thread (including the current one, if unfinished), in creation order
		next = cands[Choose("sched", len(cands))]
	}
	if next == from {
		return
	}
	coCur = next
	next.resume <- struct{}{}
	if from.done && from != coMain {
		return // goroutine ends
	}
	<-from.resume
}

// Yield is a scheduling point.
func Yield() {
	if coCur == nil || len(coThreads) == 0 {
		return
	}
	cur := coCur
	if cur == coMain {
		return // main only schedules in WaitAll
	}
	coSwitch(cur)
	if coPanic != nil && cur != coMain {
		// another thread failed: unwind this one quietly
	}
}

// WaitAll runs the registered threads to completion (main does not interleave with them).
func WaitAll() {
	if coCur == nil {
		coCur = coMain
	}
	for coPanic == nil && len(coRunnable(nil)) > 0 {
		coSwitch(coMain)
	}
	p := coPanic
	coReset()
	if p != nil {
		panic(p)
	}
}

// Concurrent runs the operation f of a non-interference check (C20). Under the executor f runs once
// with the write monitor armed (INTERCEPTED). Natively f runs in two goroutines at once; the
// replay binary is built with the race detector, which reports the write the monitor predicted.
func Concurrent(f func()) {
	var wg sync.WaitGroup
	for i := 0; i < 2; i++ {
		wg.Add(1)
		go func() {
			defer wg.Done()
			f()
		}()
	}
	wg.Wait()
}

// Note records a diagnostic string in the native result (no effect under the executor). INTERCEPTED.
func Note(s string) {
	mu.Lock()
	cur.Notes = append(cur.Notes, s)
	mu.Unlock()
}
