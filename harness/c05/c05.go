// Package c05: links are a function of value and prototype; store then load returns the value.
package c05

import (
	cid "github.com/ipfs/go-cid"
	mh "github.com/multiformats/go-multihash"

	"github.com/ipld/go-ipld-prime/datamodel"
	nd "github.com/ipld/go-ipld-prime/internal/verifnd"
	"github.com/ipld/go-ipld-prime/linking"
	cidlink "github.com/ipld/go-ipld-prime/linking/cid"
	"github.com/ipld/go-ipld-prime/node/basicnode"
	"github.com/ipld/go-ipld-prime/node/bindnode"
	"github.com/ipld/go-ipld-prime/storage/memstore"
	"github.com/ipld/go-ipld-prime/zzverif/ref/fnode"
	"github.com/ipld/go-ipld-prime/zzverif/ref/gen"
	"github.com/ipld/go-ipld-prime/zzverif/ref/lsys"
	"github.com/ipld/go-ipld-prime/zzverif/ref/refcbor"
	"github.com/ipld/go-ipld-prime/zzverif/ref/refval"
	"github.com/ipld/go-ipld-prime/zzverif/schemas"

	_ "github.com/ipld/go-ipld-prime/codec/cbor"
	_ "github.com/ipld/go-ipld-prime/codec/dagcbor"
	_ "github.com/ipld/go-ipld-prime/codec/dagjson"
	_ "github.com/ipld/go-ipld-prime/codec/json"
	_ "github.com/ipld/go-ipld-prime/codec/raw"
)

type codecCase struct {
	code   uint64
	shapes []string // within the codec's value domain; numbers concrete for the JSON codecs (see C04)
	sorted bool
}

var cases = []codecCase{
	{0x71, []string{"i", "{1i1s1}", "[b1{cnct}]", "{2n1l}"}, true},
	{0x0129, []string{"s1", "{1n1t}", "[b1{cnct}]"}, true},
	{0x51, []string{"{1n1s1}", "[b1i]"}, false},
	{0x0200, []string{"s1", "{1n1t}", "[s1n]"}, false},
	{0x55, []string{"b2", "b0"}, false},
}

// asciiOnly: the JSON codecs' domain is valid UTF-8; single free bytes are restricted to ASCII.
func asciiOnly(v *refval.V) {
	if v.K == refval.String {
		for i := 0; i < len(v.S); i++ {
			nd.Assume(v.S[i] < 0x80)
		}
	}
	for i, c := range v.L {
		if v.K == refval.Map {
			for j := 0; j < len(v.Keys[i]); j++ {
				nd.Assume(v.Keys[i][j] < 0x80)
			}
		}
		asciiOnly(c)
	}
}

func buildLinkSystem(which int) linking.LinkSystem {
	ls := cidlink.DefaultLinkSystem()
	if which == 0 {
		st := &cidlink.Memory{}
		ls.StorageReadOpener = st.OpenRead
		ls.StorageWriteOpener = st.OpenWrite
	} else {
		st := &memstore.Store{}
		ls.SetReadStorage(st)
		ls.SetWriteStorage(st)
	}
	return ls
}

func prototype(codec uint64) (cidlink.LinkPrototype, int) {
	switch nd.Choose("hash", 5) {
	case 4: // identity with an explicit length (as a prototype taken from an existing identity link has): the identity "digest" is the whole block whatever the length says
		return cidlink.LinkPrototype{Prefix: cid.Prefix{Version: 1, Codec: codec, MhType: mh.IDENTITY, MhLength: 1}}, 0
	case 0:
		return cidlink.LinkPrototype{Prefix: cid.Prefix{Version: 1, Codec: codec, MhType: mh.IDENTITY, MhLength: -1}}, 0
	case 1:
		return cidlink.LinkPrototype{Prefix: cid.Prefix{Version: 1, Codec: codec, MhType: lsys.FoldCode, MhLength: 2}}, 1
	case 2:
		return cidlink.LinkPrototype{Prefix: cid.Prefix{Version: 1, Codec: codec, MhType: lsys.FoldCode, MhLength: 1}}, 2
	}
	// CIDv0 (the sha2-256 code is served by the fold32 stand-in); dag-pb codec is implied by v0
	return cidlink.LinkPrototype{Prefix: cid.Prefix{Version: 0, Codec: 0x70, MhType: mh.SHA2_256, MhLength: 32}}, 3
}

func sameLink(a, b datamodel.Link) bool { return a.Binary() == b.Binary() }

// HStoreLoad: store, compute, and every load form, on one link system, with repeats.
func HStoreLoad() {
	lsys.Register()
	cc := cases[nd.Choose("codec", nd.Param("CODECS", len(cases)))]
	v := gen.FromShape("", cc.shapes[nd.Choose("shape", len(cc.shapes))])
	if cc.code == 0x0129 || cc.code == 0x0200 {
		asciiOnly(v)
		if v.K == refval.Map && len(v.L) == 1 && v.L[0].K == refval.String {
			nd.Assume(v.Keys[0] != "/")
		}
	}
	ins := gen.Permute("", v)
	var n datamodel.Node
	if nd.Choose("impl", 2) == 0 {
		n = gen.MustBuild(ins)
	} else {
		n = fnode.New(ins)
	}
	lp, hk := prototype(cc.code)
	if hk == 3 && cc.code != 0x71 {
		nd.Assume(false) // one codec is enough for the v0 plumbing (v0 fixes the codec field to dag-pb)
	}
	if hk == 3 {
		// a v0 prototype cannot name dag-cbor; use the registry entry for dag-pb by registering nothing:
		// the encoder chooser must refuse it cleanly
		ls := buildLinkSystem(0)
		var err error
		nd.NoPanic("store-v0", func() { _, err = ls.Store(linking.LinkContext{}, lp, n) })
		nd.Assert(err != nil, "a prototype whose codec has no registered encoder is refused with an error")
		nd.Reach("v0")
		return
	}
	ls := buildLinkSystem(nd.Choose("storage", 2))
	// a value built in canonical insertion order, through the other implementation
	ref := gen.MustBuild(v)
	var l1, l2, l3 datamodel.Link
	var err error
	nd.NoPanic("compute", func() { l1, err = ls.ComputeLink(lp, n) })
	nd.Assert(err == nil, "ComputeLink succeeds")
	nd.NoPanic("store", func() { l2, err = ls.Store(linking.LinkContext{}, lp, n) })
	nd.Assert(err == nil, "Store succeeds")
	if l1 == nil || l2 == nil {
		return
	}
	nd.Assert(sameLink(l1, l2), "Store returns the link ComputeLink computes")
	nd.NoPanic("compute-ref", func() { l3, err = ls.ComputeLink(lp, ref) })
	if cc.sorted {
		nd.Assert(err == nil && sameLink(l1, l3), "the link does not depend on node implementation or map insertion order")
	}
	// independent derivation of the link for dag-cbor: reference encoder + reference hash
	if cc.code == 0x71 {
		enc := refcbor.Encode(nil, v)
		var want cidlink.Link
		switch hk {
		case 0:
			want = lsys.V1Link(cc.code, mh.IDENTITY, enc)
		case 1:
			x, s := lsys.Fold(enc)
			want = lsys.V1Link(cc.code, lsys.FoldCode, []byte{x, s})
		case 2:
			x, _ := lsys.Fold(enc)
			want = lsys.V1Link(cc.code, lsys.FoldCode, []byte{x})
		}
		nd.Assert(l1.Binary() == want.Binary(), "link = CID(prefix, hash(canonical encoding of the value))")
	}
	// second store (history independence). For the codecs that keep insertion order the re-built
	// value would be a different block, so the same node is stored again.
	var l4 datamodel.Link
	again := n
	if cc.sorted {
		again = ref
	}
	nd.NoPanic("store2", func() { l4, err = ls.Store(linking.LinkContext{}, lp, again) })
	nd.Assert(err == nil && sameLink(l4, l1), "storing the same value again gives the same link")
	want := ins
	if cc.code == 0x71 {
		want = refcbor.Canon(v)
	} else if cc.code == 0x0129 {
		want = canonLex(v)
	}
	rounds := nd.Param("ROUNDS", 2)
	for r := 0; r < 4*rounds; r++ {
		var got datamodel.Node
		var rawb []byte
		form := r % 4
		nd.NoPanic("load", func() {
			switch form {
			case 0:
				got, err = ls.Load(linking.LinkContext{}, l2, basicnode.Prototype.Any)
			case 1:
				rawb, err = ls.LoadRaw(linking.LinkContext{}, l2)
			case 2:
				got, rawb, err = ls.LoadPlusRaw(linking.LinkContext{}, l2, basicnode.Prototype.Any)
			case 3:
				nb := basicnode.Prototype.Any.NewBuilder()
				err = ls.Fill(linking.LinkContext{}, l2, nb)
				if err == nil {
					got = nb.Build()
				}
			}
		})
		nd.Assert(err == nil, "loading what was just stored succeeds")
		if err != nil {
			return
		}
		if got != nil {
			if cc.sorted || cc.code == 0x55 {
				nd.Assert(refval.Equal(refval.Of(got), want), "the loaded node equals the stored one (maps in the codec's canonical order)")
			} else {
				nd.Assert(refval.Equal(refval.Of(got), ins), "the loaded node equals the stored one")
			}
		}
		if rawb != nil || form == 1 {
			l5, e2 := ls.ComputeLink(lp, basicnode.NewBytes(rawb))
			_ = l5
			_ = e2
			if cc.code == 0x55 {
				nd.Assert(e2 == nil && sameLink(l5, l2), "the raw bytes returned hash to the link")
			}
			if cc.code == 0x71 {
				nd.Assert(nd.EqBytes(rawb, refcbor.Encode(nil, v)), "the raw bytes are the canonical encoding")
			}
		}
	}
	nd.Reach("end")
}

func canonLex(v *refval.V) *refval.V {
	switch v.K {
	case refval.List:
		n := &refval.V{K: refval.List}
		for _, e := range v.L {
			n.L = append(n.L, canonLex(e))
		}
		return n
	case refval.Map:
		n := &refval.V{K: refval.Map}
		used := make([]bool, len(v.L))
		for range v.L {
			best := -1
			for j := range v.L {
				if !used[j] && (best < 0 || v.Keys[j] < v.Keys[best]) {
					best = j
				}
			}
			used[best] = true
			n.Keys = append(n.Keys, v.Keys[best])
			n.L = append(n.L, canonLex(v.L[best]))
		}
		return n
	}
	return v
}

// HTypedNode: a schema-typed node whose representation differs from its type-level view
// (renamed field, tuple) is a value like any other: Store and ComputeLink agree with each other
// and with the same value built generically, and loading returns that value.
func HTypedNode() {
	lsys.Register()
	ts := schemas.TypeSystem()
	var typed datamodel.Node
	var v *refval.V
	ints := []int64{0, -1, 1 << 40}
	if nd.Choose("type", 2) == 0 {
		p := &schemas.Plain{A: ints[nd.Choose("A", 3)], B: nd.String("B", 1), C: nd.Bool("C")}
		nd.Assume(p.B[0] < 0x80)
		typed = bindnode.Wrap(p, ts.TypeByName("Plain"))
		v = refval.MkMap([]string{"A", "B", "C"}, []*refval.V{refval.MkInt(p.A), refval.MkString(p.B), refval.MkBool(p.C)})
	} else {
		z := nd.String("Z", 1)
		p := &schemas.Tuple{X: ints[nd.Choose("X", 3)], Y: nd.String("Y", 1), Z: &z}
		nd.Assume(p.Y[0] < 0x80 && z[0] < 0x80)
		typed = bindnode.Wrap(p, ts.TypeByName("Tuple"))
		v = refval.MkMap([]string{"X", "Y", "Z"}, []*refval.V{refval.MkInt(p.X), refval.MkString(p.Y), refval.MkString(z)})
	}
	cc := cases[nd.Choose("codec", 2)] // dag-cbor, dag-json
	lp, hk := prototype(cc.code)
	nd.Assume(hk != 3)
	ls := buildLinkSystem(nd.Choose("storage", 2))
	var l1, l2, l3 datamodel.Link
	var err error
	nd.NoPanic("compute", func() { l1, err = ls.ComputeLink(lp, typed) })
	nd.Assert(err == nil, "ComputeLink of a typed node")
	nd.NoPanic("store", func() { l2, err = ls.Store(linking.LinkContext{}, lp, typed) })
	nd.Assert(err == nil, "Store of a typed node")
	if l1 == nil || l2 == nil {
		return
	}
	nd.Assert(sameLink(l1, l2), "Store returns the link ComputeLink computes, for typed nodes too")
	if typed.Length() == int64(len(v.L)) {
		nd.NoPanic("compute-generic", func() { l3, err = ls.ComputeLink(lp, gen.MustBuild(v)) })
		nd.Assert(err == nil && sameLink(l1, l3), "the link is that of the same value built generically")
	}
	var got datamodel.Node
	nd.NoPanic("load", func() { got, err = ls.Load(linking.LinkContext{}, l2, basicnode.Prototype.Any) })
	nd.Assert(err == nil && got != nil, "the stored typed value loads")
	if got != nil && typed.Length() == int64(len(v.L)) {
		nd.Assert(refval.Equal(refval.Of(got), refcbor.Canon(v)), "and is the value stored (type-level view, maps in the codec's order)")
	}
	nd.Reach("end")
}

// HAfterFailure: the history starts with an operation that fails part-way through encoding (a
// list whose second element the codec cannot encode, after bytes have already reached the hasher);
// what follows must give the links and bytes a fresh link system gives.
func HAfterFailure() {
	lsys.Register()
	cc := cases[nd.Choose("codec", len(cases))]
	v := gen.FromShape("", cc.shapes[0])
	if cc.code == 0x0129 || cc.code == 0x0200 {
		asciiOnly(v)
	}
	n := gen.MustBuild(v)
	lp, hk := prototype(cc.code)
	nd.Assume(hk != 3)
	ls := buildLinkSystem(nd.Choose("storage", 2))
	fails := nd.Param("FAILS", 1)
	for i := 0; i < fails; i++ {
		bad := basicnode.Prototype.List.NewBuilder()
		la, _ := bad.BeginList(2)
		if cc.code == 0x55 {
			la.AssembleValue().AssignInt(1) // raw encodes bytes only
		} else {
			la.AssembleValue().AssignString("x")
		}
		la.AssembleValue().AssignLink(cidlink.Link{}) // an undefined CID
		la.Finish()
		var e error
		nd.NoPanic("failing operation", func() {
			if nd.Choose("failop", 2) == 0 {
				_, e = ls.Store(linking.LinkContext{}, lp, bad.Build())
			} else {
				_, e = ls.ComputeLink(lp, bad.Build())
			}
		})
		nd.Assert(e != nil, "an unencodable value is refused")
	}
	fresh := buildLinkSystem(0)
	var l0, l1, l2 datamodel.Link
	var err error
	nd.NoPanic("fresh", func() { l0, err = fresh.ComputeLink(lp, n) })
	nd.Assert(err == nil && l0 != nil, "ComputeLink on a fresh link system succeeds")
	if nd.Choose("then", 2) == 0 {
		nd.NoPanic("compute", func() { l1, err = ls.ComputeLink(lp, n) })
		nd.Assert(err == nil && l1 != nil && sameLink(l0, l1), "ComputeLink after a failed operation = ComputeLink on a fresh link system")
	}
	nd.NoPanic("store", func() { l2, err = ls.Store(linking.LinkContext{}, lp, n) })
	nd.Assert(err == nil && l2 != nil && sameLink(l0, l2), "Store after a failed operation returns the link a fresh link system computes")
	if l2 == nil {
		return
	}
	var got datamodel.Node
	nd.NoPanic("load", func() { got, err = ls.Load(linking.LinkContext{}, l2, basicnode.Prototype.Any) })
	nd.Assert(err == nil && got != nil, "the value stored after a failed operation loads (its hash verifies)")
	if got != nil {
		want := v
		if cc.code == 0x71 {
			want = refcbor.Canon(v)
		} else if cc.code == 0x0129 {
			want = canonLex(v)
		}
		nd.Assert(refval.Equal(refval.Of(got), want), "and is the value stored")
	}
	nd.Reach("end")
}
