package fsstore

import (
	"context"
	"io"
	"path/filepath"
	"strings"

	nd "github.com/ipld/go-ipld-prime/internal/verifnd"
	"github.com/ipld/go-ipld-prime/storage/sharding"
)

// ---------------- C17: path kernel ----------------

func newStore(custom int) *Store {
	st := &Store{basepath: "/b"}
	switch custom {
	case 0:
		st.escapingFunc, st.shardingFunc = b32enc, sharding.Shard_r12
	case 1:
		st.escapingFunc, st.shardingFunc = b32enc, sharding.Shard_r133
	case 2:
		st.escapingFunc, st.shardingFunc = b32enc, sharding.Shard_r122
	}
	return st
}

// HPathKernel: for two free keys, equal paths imply equal keys; every path is strictly inside
// the base directory and outside the staging directory.
func HPathKernel() {
	st := newStore(nd.Choose("setup", 3))
	k1 := nd.String("k1", nd.Choose("len1", nd.Param("KEYLEN", 3)+1))
	k2 := nd.String("k2", nd.Choose("len2", nd.Param("KEYLEN", 3)+1))
	var p1, p2 string
	nd.NoPanic("pathForKey", func() { p1, p2 = st.pathForKey(k1), st.pathForKey(k2) })
	nd.Assert(nd.Implies(p1 == p2, k1 == k2), "keys that differ never map to the same path")
	// nor is one key's file a directory on the way to another key's file
	nd.KnownFinding("C17-fsstore-empty-key-is-a-shard-directory", len(k1) == 0 || len(k2) == 0)
	nd.Assert(!strings.HasPrefix(filepath.Clean(p2), filepath.Clean(p1)+"/"), "the path of a key is never a directory above the path of another key")
	c := filepath.Clean(p1)
	nd.Assert(strings.HasPrefix(c, "/b/"), "the path of a key lies inside the base directory, whatever bytes the key contains")
	nd.Assert(!strings.HasPrefix(c, "/b/"+stagingDir+"/") && c != "/b/"+stagingDir, "the path of a key is not inside the staging directory")
	nd.Reach("end")
}

// HLongKeys: keys far longer than a file-name component allows (a common prefix of PRE bytes and
// one free byte each): distinct keys still never share a path (the file system may refuse such a
// name; aliasing another key is what must not happen).
func HLongKeys() {
	st := newStore(nd.Choose("setup", 3))
	pres := []int{40, 100, 158, 159, 160, 161, 200, 320}
	pre := strings.Repeat("k", pres[nd.Choose("pre", nd.Param("PRES", len(pres)))])
	k1 := pre + nd.String("k1", nd.Choose("len1", 3))
	k2 := pre + nd.String("k2", nd.Choose("len2", 3))
	var p1, p2 string
	nd.NoPanic("pathForKey", func() { p1, p2 = st.pathForKey(k1), st.pathForKey(k2) })
	nd.Assert(nd.Implies(p1 == p2, k1 == k2), "long keys that differ never map to the same path")
	nd.Assert(strings.HasPrefix(filepath.Clean(p1), "/b/"), "the path of a long key lies inside the base directory")
	nd.Reach("end")
}

// ---------------- C17: key-value behaviour on the model file system ----------------

func initStore(custom int) *Store {
	FS = newFS()
	if M_Mkdir("/b", 0777) != nil {
		panic("mkdir base")
	}
	var st Store
	var err error
	switch custom {
	case 0:
		err = st.InitDefaults("/b")
	case 1:
		err = st.Init("/b", b32enc, sharding.Shard_r133)
	default:
		err = st.Init("/b", b32enc, sharding.Shard_r122)
	}
	nd.Assert(err == nil, "Init on an empty directory succeeds")
	return &st
}

func readAll(r io.Reader) []byte {
	var out []byte
	buf := make([]byte, 4)
	for {
		n, err := r.Read(buf)
		out = append(out, buf[:n]...)
		if err != nil {
			return out
		}
	}
}

// HKeyValue: histories of put/put-stream/get/get-stream/has over symbolic keys against an abstract map.
func HKeyValue() {
	st := initStore(nd.Choose("setup", nd.Param("SETUPS", 1)))
	ctx := context.Background()
	nkeys := nd.Param("KEYS", 2)
	keys := make([]string, nkeys)
	vals := make([][]byte, nkeys)
	stored := make([]bool, nkeys)
	for i := range keys {
		keys[i] = nd.String("key", nd.Choose("klen", nd.Param("KEYLEN", 3)+1))
		vals[i] = nd.Bytes("val", nd.Choose("vlen", 3))
		for j := 0; j < i; j++ {
			nd.Assume(keys[i] != keys[j]) // one content per key; distinct keys must not alias
		}
		nd.KnownFinding("C17-fsstore-empty-key-is-a-shard-directory", len(keys[i]) == 0)
	}
	for op := 0; op < nd.Param("OPS", 3); op++ {
		i := nd.Choose("which", nkeys)
		switch nd.Choose("op", 5) {
		case 0: // put, then the caller scribbles over its buffer
			buf := append([]byte{}, vals[i]...)
			nd.Assert(st.Put(ctx, keys[i], buf) == nil, "put succeeds")
			for j := range buf {
				buf[j] ^= 0xff
			}
			stored[i] = true
		case 1: // put-stream in two writes
			w, commit, err := st.PutStream(ctx)
			nd.Assert(err == nil, "put-stream opens")
			if err == nil {
				h := len(vals[i]) / 2
				w.Write(vals[i][:h])
				w.Write(vals[i][h:])
				nd.Assert(commit(keys[i]) == nil, "commit succeeds")
				stored[i] = true
			}
		case 2:
			b, err := st.Get(ctx, keys[i])
			nd.Assert((err == nil) == stored[i], "get succeeds exactly for the keys stored")
			if err == nil {
				nd.Assert(nd.EqBytes(b, vals[i]), "get returns exactly the bytes stored under that key")
			}
		case 3:
			r, err := st.GetStream(ctx, keys[i])
			nd.Assert((err == nil) == stored[i], "get-stream succeeds exactly for the keys stored")
			if err == nil {
				nd.Assert(nd.EqBytes(readAll(r), vals[i]), "get-stream yields exactly the bytes stored under that key")
				r.Close()
			}
		case 4:
			has, err := st.Has(ctx, keys[i])
			nd.Assert(err == nil && has == stored[i], "has reports exactly the keys stored")
		}
	}
	// after the history: every key is reported and read as the abstract map has it
	for i := range keys {
		has, err := st.Has(ctx, keys[i])
		nd.Assert(err == nil && has == stored[i], "after the history, has reports exactly the keys stored")
		got, err := st.Get(ctx, keys[i])
		nd.Assert((err == nil) == stored[i], "after the history, get succeeds exactly for the keys stored")
		if err == nil && stored[i] {
			nd.Assert(nd.EqBytes(got, vals[i]), "after the history, get returns the content put")
		}
	}
	// nothing outside the base directory was touched
	for p := range FS.files {
		nd.Assert(p == "/" || p == "/b" || strings.HasPrefix(p, "/b/"), "nothing is created outside the base directory")
	}
	nd.Reach("end")
}

// ---------------- C18: atomicity under crashes and faults ----------------

func survive(f func()) (completed bool) {
	defer func() {
		if r := recover(); r != nil {
			if _, ok := r.(crashed); !ok {
				panic(r)
			}
		}
	}()
	f()
	return true
}

// inspect: a new process opens the surviving tree: the key is absent or complete; the store is usable.
func inspect(key string, content []byte, mustHave bool, label string) {
	FS.dead, FS.crashAt, FS.faultAt, FS.partial = false, -1, -1, false
	ctx := context.Background()
	var st2 Store
	nd.Assert(st2.InitDefaults("/b") == nil, label+"a new process can initialise the store on the surviving directory")
	has, err := st2.Has(ctx, key)
	nd.Assert(err == nil, label+"has works after the crash")
	if mustHave {
		nd.Assert(has, label+"a committed key is present")
	}
	if has {
		got, err := st2.Get(ctx, key)
		nd.Assert(err == nil && nd.EqBytes(got, content), label+"a key that is present holds the complete content, never a partial one")
		nd.Reach("present")
	} else {
		nd.Reach("absent")
	}
	other := []byte{1, 2, 3}
	nd.Assert(st2.Put(ctx, "OTHERKEY", other) == nil, label+"the store accepts further puts")
	got, err := st2.Get(ctx, "OTHERKEY")
	nd.Assert(err == nil && nd.EqBytes(got, other), label+"and serves them")
	if !has {
		// the same key can still be written by the new process
		nd.Assert(st2.Put(ctx, key, content) == nil, label+"the key can be written after the crash")
		got, err := st2.Get(ctx, key)
		nd.Assert(err == nil && nd.EqBytes(got, content), label+"and read back complete")
	}
}

func theKey() string {
	if nd.Param("SYMKEY", 0) == 1 {
		return nd.String("key", 2)
	}
	return "KEYAB"
}

// HCrashPut: the process dies before any file-system step of Put (a write may be partial).
func HCrashPut() {
	st := initStore(0)
	content := nd.Bytes("c", nd.Param("CLEN", 3))
	key := theKey()
	FS.crashAt = FS.steps + nd.Choose("crash", nd.Param("STEPS", 14))
	FS.partial = nd.Choose("partial", 2) == 1
	done := survive(func() {
		nd.Assert(st.Put(context.Background(), key, content) == nil, "put without faults succeeds")
	})
	if done {
		nd.Reach("completed")
	} else {
		nd.Reach("crashed")
	}
	inspect(key, content, done, "")
}

// HCrashStream: a streaming write in two chunks; the process dies anywhere, or the writer abandons
// (commit with the empty key) after 0, 1 or 2 chunks.
func HCrashStream() {
	st := initStore(0)
	content := nd.Bytes("c", nd.Param("CLEN", 3))
	key := theKey()
	abandonAfter := nd.Choose("abandon", 4) // 3: never
	FS.crashAt = FS.steps + nd.Choose("crash", nd.Param("STEPS", 16))
	FS.partial = nd.Choose("partial", 2) == 1
	committed := false
	survive(func() {
		w, commit, err := st.PutStream(context.Background())
		nd.Assert(err == nil, "put-stream opens")
		if abandonAfter == 0 {
			commit("")
			return
		}
		w.Write(content[:1])
		if abandonAfter == 1 {
			commit("")
			return
		}
		w.Write(content[1:])
		if abandonAfter == 2 {
			commit("")
			return
		}
		nd.Assert(commit(key) == nil, "commit without faults succeeds")
		committed = true
	})
	inspect(key, content, committed, "")
}

// HFaultPut: one file-system step of Put fails (a failing write may be short).
func HFaultPut() {
	st := initStore(0)
	content := nd.Bytes("c", nd.Param("CLEN", 3))
	key := theKey()
	FS.faultAt = FS.steps + nd.Choose("fault", nd.Param("STEPS", 14))
	err := st.Put(context.Background(), key, content)
	if err == nil {
		nd.Reach("succeeded")
	} else {
		nd.Reach("failed")
	}
	inspect(key, content, err == nil, "")
}

// HOverwrite: the key already holds the content (content-addressed use) and is put again; the
// process dies anywhere: the old complete content must survive.
func HOverwrite() {
	st := initStore(0)
	content := nd.Bytes("c", nd.Param("CLEN", 3))
	key := theKey()
	nd.Assert(st.Put(context.Background(), key, content) == nil, "first put")
	FS.crashAt = FS.steps + nd.Choose("crash", nd.Param("STEPS", 14))
	FS.partial = nd.Choose("partial", 2) == 1
	survive(func() { st.Put(context.Background(), key, content) })
	inspect(key, content, true, "")
}

// HConcurrent: two writers and a reader as cooperative threads; control may change hands at every
// file-system step, the schedule is a decision. Writers either store the same key (with the same
// content: content-addressed use) or two keys that share shard directories that do not exist yet.
func HConcurrent() {
	st := initStore(0)
	ctx := context.Background()
	content := nd.Bytes("c", nd.Param("CLEN", 2))
	sameKey := nd.Choose("samekey", 2) == 1
	k1, k2 := "KEYAB", "KEYAB"
	c2 := content
	if !sameKey {
		k2 = "KEXAB" // same shard directories under the default sharding (next-to-last 2+2 of the escaped key)
		c2 = nd.Bytes("c2", nd.Param("CLEN", 2))
	}
	FS.sameRand = nd.Choose("collide", 2) == 1 // both writers draw the same staging name first
	// the second writer may be another Store value opened on the same directory (another process)
	st2 := st
	if !sameKey && !FS.sameRand && nd.Choose("twostores", 2) == 1 {
		var other Store
		nd.Assert(other.InitDefaults("/b") == nil, "a second Store opens the same directory")
		st2 = &other
	}
	// preemption bounding: control is taken away from a running thread at most PREEMPT times per
	// schedule (at any file-system step); when a thread ends, any other thread may continue
	budget := nd.Param("PREEMPT", 2)
	FS.yield = func() {
		if budget > 0 && nd.Choose("preempt", 2) == 1 {
			budget--
			nd.Yield()
		}
	}
	var e1, e2 error
	nd.Go(func() { e1 = st.Put(ctx, k1, content) })
	nd.Go(func() { e2 = st2.Put(ctx, k2, c2) })
	nd.Go(func() {
		// the reader: whenever it sees a key, the content is complete
		for i := 0; i < nd.Param("READS", 2); i++ {
			k, c := k1, content
			if i%2 == 1 {
				k, c = k2, c2
			}
			has, err := st.Has(ctx, k)
			if err == nil && has {
				got, err := st.Get(ctx, k)
				if err == nil {
					nd.Assert(nd.EqBytes(got, c), "a concurrent reader never observes a partial or mixed block")
					nd.Reach("reader-saw")
				}
			}
		}
	})
	nd.WaitAll()
	FS.yield = nil
	// (a put may fail under contention; what it must not do is leave a partial block)
	if e1 == nil && e2 == nil {
		nd.Reach("both-succeeded")
	}
	if has, err := st.Has(ctx, k2); e2 == nil || (err == nil && has) {
		got, err := st.Get(ctx, k2)
		nd.Assert(err == nil && nd.EqBytes(got, c2), "a key whose put succeeded, or that is present, holds its complete content")
	}
	inspect(k1, content, e1 == nil, "k1: ")
	nd.Reach("end")
}

// cancelCtx: a context that reports cancellation from its n-th Err() poll on.
type cancelCtx struct {
	context.Context
	polls, at int
}

func (c *cancelCtx) Err() error {
	c.polls++
	if c.polls > c.at {
		return context.Canceled
	}
	return nil
}

// HAfterCommit: a committed block is final: writes through the stream writer after its commit,
// a second put of other content under the same key while a reader holds the first open, and a
// put that fails part-way leave every committed block complete and as committed.
func HAfterCommit() {
	ctx := context.Background()
	st := initStore(nd.Choose("setup", nd.Param("SETUPS", 1)))
	key := "k1"
	a, b := nd.Bytes("a", 3), nd.Bytes("b", 3)
	switch nd.Choose("scenario", 3) {
	case 0: // late write through the stream writer
		w, commit, err := st.PutStream(ctx)
		nd.Assert(err == nil, "put-stream opens")
		w.Write(a)
		nd.Assert(commit(key) == nil, "commit")
		nd.NoPanic("late write", func() { w.Write(b) })
		got, err := st.Get(ctx, key)
		nd.Assert(err == nil && nd.EqBytes(got, a), "a write after the commit does not reach the committed block")
	case 1: // a reader opened before a second put of the same key
		nd.Assert(st.Put(ctx, key, a) == nil, "put")
		r, err := st.GetStream(ctx, key)
		nd.Assert(err == nil, "get-stream")
		one := make([]byte, 1)
		r.Read(one)
		nd.NoPanic("second put", func() { st.Put(ctx, key, b) })
		rest := readAll(r)
		nd.Assert(one[0] == a[0] && nd.EqBytes(rest, a[1:]), "a reader that opened a block reads that block to its end, whatever is put meanwhile")
		got, err := st.Get(ctx, key)
		nd.Assert(err == nil && nd.Or(nd.EqBytes(got, a), nd.EqBytes(got, b)), "the block under the key is one of the two blocks put, complete")
	case 2: // a put that fails at any step
		FS.faultAt = FS.steps + nd.Choose("faultat", 8)
		err := st.Put(ctx, key, a)
		FS.faultAt = -1
		got, gerr := st.Get(ctx, key)
		if gerr == nil {
			nd.Assert(nd.EqBytes(got, a), "a block visible after a failed put is complete")
		}
		if err == nil {
			nd.Assert(gerr == nil, "a put that reported success is visible")
		}
	}
	nd.Reach("end")
}

// HCancelPut: the caller's context is cancelled at any moment of a Put or of a streaming write:
// whatever the call returns, the key is absent or complete.
func HCancelPut() {
	st := initStore(0)
	content := nd.Bytes("c", nd.Param("CLEN", 3))
	key := theKey()
	ctx := &cancelCtx{Context: context.Background(), at: nd.Choose("cancelat", nd.Param("POLLS", 6))}
	var err error
	if nd.Choose("stream", 2) == 0 {
		err = st.Put(ctx, key, content)
	} else {
		w, commit, e := st.PutStream(ctx)
		err = e
		if e == nil {
			w.Write(content[:1])
			if ctx.Err() != nil {
				commit("") // the caller abandons a cancelled write
				err = ctx.Err()
			} else {
				w.Write(content[1:])
				err = commit(key)
			}
		}
	}
	if err == nil {
		nd.Reach("succeeded")
	} else {
		nd.Reach("cancelled")
	}
	inspect(key, content, err == nil, "")
}
