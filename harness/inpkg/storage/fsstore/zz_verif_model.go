package fsstore

// Model file system for the verification harnesses (POSIX semantics for a process that may be
// killed between two operations; no power loss). The checks compile a copy of fsstore.go,
// regenerated from the working tree on every run, in which the calls os.OpenFile, os.Rename,
// os.Remove, os.Mkdir, os.Stat, os.IsNotExist, os.IsExist and rand.Read are replaced by the
// M_* functions below; everything else of fsstore runs as written.

import (
	"errors"
	"io"
	"io/fs"
	"os"
	"path/filepath"
	"time"

	nd "github.com/ipld/go-ipld-prime/internal/verifnd"
)

type mfile struct {
	dir  bool
	data []byte
}

// MFile is an open file handle of the model.
type MFile struct {
	path   string
	f      *mfile
	off    int
	fs     *mfs
	closed bool
}

type mfs struct {
	files    map[string]*mfile
	steps    int
	crashAt  int // the process dies before executing step crashAt (-1: never)
	partial  bool
	faultAt  int // step faultAt fails with errFault (-1: never)
	dead     bool
	rnd      byte
	Log      []string
	yield    func()
	sameRand bool
}

type crashed struct{}

var errFault = errors.New("injected I/O error")

// FS is the model file system the rewritten fsstore code operates on.
var FS *mfs

func newFS() *mfs {
	return &mfs{files: map[string]*mfile{"/": {dir: true}}, crashAt: -1, faultAt: -1}
}

// step: one file-system operation. Returns an injected error, or dies.
func (m *mfs) step(op, p string) error {
	if m.dead {
		panic(crashed{})
	}
	if m.yield != nil {
		m.yield()
	}
	if m.steps == m.crashAt {
		m.dead = true
		panic(crashed{})
	}
	m.steps++
	m.Log = append(m.Log, op+" "+p)
	if m.steps-1 == m.faultAt {
		return errFault
	}
	return nil
}

func (m *mfs) parentOK(p string) bool {
	d, ok := m.files[filepath.Dir(p)]
	return ok && d.dir
}
func perr(op, p string, e error) error { return &fs.PathError{Op: op, Path: p, Err: e} }

func M_OpenFile(name string, flag int, perm os.FileMode) (*MFile, error) {
	if err := FS.step("open", name); err != nil {
		return nil, perr("open", name, err)
	}
	name = filepath.Clean(name)
	if !FS.parentOK(name) {
		return nil, perr("open", name, fs.ErrNotExist)
	}
	f, exists := FS.files[name]
	if flag&os.O_CREATE != 0 {
		if exists && flag&os.O_EXCL != 0 {
			return nil, perr("open", name, fs.ErrExist)
		}
		if !exists {
			f = &mfile{}
			FS.files[name] = f
		}
	} else if !exists {
		return nil, perr("open", name, fs.ErrNotExist)
	}
	if f.dir && flag&(os.O_WRONLY|os.O_RDWR) != 0 {
		return nil, perr("open", name, errors.New("is a directory"))
	}
	if flag&os.O_TRUNC != 0 && flag&(os.O_WRONLY|os.O_RDWR) != 0 {
		f.data = nil
	}
	return &MFile{path: name, f: f, fs: FS}, nil
}

// The convenience functions of package os, in terms of the primitive steps above.
func M_Create(name string) (*MFile, error) {
	return M_OpenFile(name, os.O_RDWR|os.O_CREATE|os.O_TRUNC, 0666)
}
func M_Open(name string) (*MFile, error) { return M_OpenFile(name, os.O_RDONLY, 0) }
func M_WriteFile(name string, data []byte, perm os.FileMode) error {
	f, err := M_OpenFile(name, os.O_WRONLY|os.O_CREATE|os.O_TRUNC, perm)
	if err != nil {
		return err
	}
	_, err = f.Write(data)
	if err1 := f.Close(); err1 != nil && err == nil {
		err = err1
	}
	return err
}
func M_ReadFile(name string) ([]byte, error) {
	f, err := M_OpenFile(name, os.O_RDONLY, 0)
	if err != nil {
		return nil, err
	}
	defer f.Close()
	return io.ReadAll(f)
}
func M_MkdirAll(p string, perm os.FileMode) error {
	p = filepath.Clean(p)
	if d, ok := FS.files[p]; ok && d.dir {
		return nil
	}
	if parent := filepath.Dir(p); parent != p {
		if err := M_MkdirAll(parent, perm); err != nil {
			return err
		}
	}
	err := M_Mkdir(p, perm)
	if M_IsExist(err) {
		return nil
	}
	return err
}

func (h *MFile) Sync() error {
	if h.closed {
		return perr("sync", h.path, os.ErrClosed)
	}
	if err := h.fs.step("sync", h.path); err != nil {
		return perr("sync", h.path, err)
	}
	return nil
}

func (h *MFile) Write(b []byte) (int, error) {
	if h.closed {
		return 0, perr("write", h.path, os.ErrClosed)
	}
	m := h.fs
	if m.steps == m.crashAt && m.partial && len(b) > 1 && !m.dead {
		// the process dies in the middle of this write: a prefix reaches the file
		h.f.data = append(h.f.data, b[:1+nd.Choose("partial", len(b)-1)]...)
	}
	if err := m.step("write", h.path); err != nil {
		// a failed write may have written a prefix
		n := nd.Choose("short", len(b)+1)
		h.f.data = append(h.f.data, b[:n]...)
		return n, perr("write", h.path, err)
	}
	h.f.data = append(h.f.data, b...)
	return len(b), nil
}

func (h *MFile) Read(b []byte) (int, error) {
	if h.f.dir {
		return 0, perr("read", h.path, errors.New("is a directory"))
	}
	if h.off >= len(h.f.data) {
		return 0, io.EOF
	}
	n := copy(b, h.f.data[h.off:])
	h.off += n
	return n, nil
}

func (h *MFile) Close() error {
	if h.closed {
		return perr("close", h.path, os.ErrClosed)
	}
	h.closed = true
	if err := h.fs.step("close", h.path); err != nil {
		return perr("close", h.path, err)
	}
	return nil
}

func M_Rename(o, n string) error {
	if err := FS.step("rename", o+" -> "+n); err != nil {
		return &os.LinkError{Op: "rename", Old: o, New: n, Err: err}
	}
	o, n = filepath.Clean(o), filepath.Clean(n)
	f, ok := FS.files[o]
	if !ok || !FS.parentOK(n) {
		return &os.LinkError{Op: "rename", Old: o, New: n, Err: fs.ErrNotExist}
	}
	if t, ok := FS.files[n]; ok && t.dir != f.dir {
		return &os.LinkError{Op: "rename", Old: o, New: n, Err: errors.New("file/directory mismatch")}
	}
	FS.files[n] = f // atomic replace
	delete(FS.files, o)
	return nil
}

func M_Remove(p string) error {
	if err := FS.step("remove", p); err != nil {
		return perr("remove", p, err)
	}
	p = filepath.Clean(p)
	if _, ok := FS.files[p]; !ok {
		return perr("remove", p, fs.ErrNotExist)
	}
	delete(FS.files, p)
	return nil
}

func M_Mkdir(p string, perm os.FileMode) error {
	if err := FS.step("mkdir", p); err != nil {
		return perr("mkdir", p, err)
	}
	p = filepath.Clean(p)
	if _, ok := FS.files[p]; ok {
		return perr("mkdir", p, fs.ErrExist)
	}
	if !FS.parentOK(p) {
		return perr("mkdir", p, fs.ErrNotExist)
	}
	FS.files[p] = &mfile{dir: true}
	return nil
}

type minfo struct {
	name string
	f    *mfile
}

func (i minfo) Name() string       { return i.name }
func (i minfo) Size() int64        { return int64(len(i.f.data)) }
func (i minfo) Mode() fs.FileMode  { return 0 }
func (i minfo) ModTime() time.Time { return time.Time{} }
func (i minfo) IsDir() bool        { return i.f.dir }
func (i minfo) Sys() any           { return nil }

func M_Stat(p string) (os.FileInfo, error) {
	if err := FS.step("stat", p); err != nil {
		return nil, perr("stat", p, err)
	}
	p = filepath.Clean(p)
	f, ok := FS.files[p]
	if !ok {
		return nil, perr("stat", p, fs.ErrNotExist)
	}
	return minfo{filepath.Base(p), f}, nil
}

func under(err error) error {
	switch e := err.(type) {
	case *fs.PathError:
		return e.Err
	case *os.LinkError:
		return e.Err
	}
	return err
}
func M_IsNotExist(err error) bool { return under(err) == fs.ErrNotExist }
func M_IsExist(err error) bool    { return under(err) == fs.ErrExist }

// M_RandRead: the staging name. With sameRand the same name is produced twice in a row (a
// collision between two writers), then fresh ones.
func M_RandRead(b []byte) (int, error) {
	if !(FS.sameRand && FS.rnd == 1) {
		FS.rnd++
	} else {
		FS.sameRand = false
	}
	for i := range b {
		b[i] = FS.rnd
	}
	return len(b), nil
}
