// Package c19: binding Go values is faithful, reversible and a pure function of its inputs.
package c19

import (
	"bytes"

	ipld "github.com/ipld/go-ipld-prime"
	"github.com/ipld/go-ipld-prime/codec/dagcbor"
	"github.com/ipld/go-ipld-prime/datamodel"
	nd "github.com/ipld/go-ipld-prime/internal/verifnd"
	"github.com/ipld/go-ipld-prime/node/bindnode"
	"github.com/ipld/go-ipld-prime/schema"
	"github.com/ipld/go-ipld-prime/zzverif/ref/refcbor"
	"github.com/ipld/go-ipld-prime/zzverif/ref/refval"
	"github.com/ipld/go-ipld-prime/zzverif/schemas"
)

func optStr(name string) *string {
	if nd.Choose(name+"?", 2) == 0 {
		return nil
	}
	s := nd.String(name, 1)
	return &s
}

func optInt(name string) *int64 {
	if nd.Choose(name+"?", 2) == 0 {
		return nil
	}
	i := nd.Int64(name)
	return &i
}

// a case: a Go value with symbolic contents, its schema type name, and the abstract type-level value it holds
type kase struct {
	name string // Go shape (selects fresh())
	typ  string // schema type name if different from name
	ptr  interface{}
	want *refval.V
	eq   func(got interface{}) bool // got holds the same data as ptr
}

func mkMap(keys []string, vals ...*refval.V) *refval.V { return refval.MkMap(keys, vals) }

func plainOf(p schemas.Plain) *refval.V {
	return mkMap([]string{"A", "B", "C"}, refval.MkInt(p.A), refval.MkString(p.B), refval.MkBool(p.C))
}

func cases(which int) kase {
	switch which {
	case 0:
		v := &schemas.Plain{A: nd.Int64("A"), B: nd.String("B", 1), C: nd.Bool("C")}
		return kase{"Plain", "", v, plainOf(*v), func(g interface{}) bool { return *g.(*schemas.Plain) == *v }}
	case 1:
		v := &schemas.Narrow{N: int8(nd.Byte("N")), U: nd.Byte("U"), W: uint32(nd.Int64("W")), X: nd.Uint64("X")}
		nd.Assume(v.X <= 1<<63-1) // values above MaxInt64 are read through AsUint; covered by case 2
		return kase{"Narrow", "", v, mkMap([]string{"N", "U", "W", "X"}, refval.MkInt(int64(v.N)), refval.MkInt(int64(v.U)), refval.MkInt(int64(v.W)), refval.MkInt(int64(v.X))),
			func(g interface{}) bool { return *g.(*schemas.Narrow) == *v }}
	case 2:
		v := &schemas.Narrow{X: nd.Uint64("X")}
		nd.Assume(v.X > 1<<63-1)
		return kase{"Narrow", "", v, mkMap([]string{"N", "U", "W", "X"}, refval.MkInt(0), refval.MkInt(0), refval.MkInt(0), refval.MkUint(v.X)),
			func(g interface{}) bool { return *g.(*schemas.Narrow) == *v }}
	case 3:
		v := &schemas.OptNull{Req: nd.Int64("Req"), Opt: optStr("Opt"), Nul: optInt("Nul")}
		if nd.Choose("Both?", 3) > 0 {
			var inner *string
			if nd.Choose("Both=null", 2) == 0 {
				inner = optStr("BothV")
				if inner == nil {
					s := ""
					inner = &s
				}
			}
			v.Both = &inner
		}
		w := &refval.V{K: refval.Map}
		add := func(k string, x *refval.V) { w.Keys = append(w.Keys, k); w.L = append(w.L, x) }
		add("Req", refval.MkInt(v.Req))
		if v.Opt != nil {
			add("Opt", refval.MkString(*v.Opt))
		} else {
			add("Opt", &refval.V{K: refval.Absent})
		}
		if v.Nul != nil {
			add("Nul", refval.MkInt(*v.Nul))
		} else {
			add("Nul", refval.MkNull())
		}
		if v.Both != nil {
			if *v.Both != nil {
				add("Both", refval.MkString(**v.Both))
			} else {
				add("Both", refval.MkNull())
			}
		} else {
			add("Both", &refval.V{K: refval.Absent})
		}
		return kase{"OptNull", "", v, w, func(g interface{}) bool {
			o := g.(*schemas.OptNull)
			ok := o.Req == v.Req && (o.Opt == nil) == (v.Opt == nil) && (o.Nul == nil) == (v.Nul == nil) && (o.Both == nil) == (v.Both == nil)
			if !ok {
				return false
			}
			r := true
			if v.Opt != nil {
				r = nd.And(r, *o.Opt == *v.Opt)
			}
			if v.Nul != nil {
				r = nd.And(r, *o.Nul == *v.Nul)
			}
			if v.Both != nil {
				if (*o.Both == nil) != (*v.Both == nil) {
					return false
				}
				if *v.Both != nil {
					r = nd.And(r, **o.Both == **v.Both)
				}
			}
			return r
		}}
	case 4:
		v := &schemas.MapSI{}
		n := nd.Choose("len", 3)
		v.Values = map[string]int64{}
		w := &refval.V{K: refval.Map}
		for i := 0; i < n; i++ {
			k := nd.String("k", 1)
			for _, o := range v.Keys {
				nd.Assume(k != o)
			}
			x := nd.Int64("v")
			v.Keys = append(v.Keys, k)
			v.Values[k] = x
			w.Keys = append(w.Keys, k)
			w.L = append(w.L, refval.MkInt(x))
		}
		return kase{"MapSI", "", v, w, func(g interface{}) bool {
			o := g.(*schemas.MapSI)
			if len(o.Keys) != len(v.Keys) || len(o.Values) != len(v.Values) {
				return false
			}
			r := true
			for i, k := range v.Keys {
				r = nd.And(r, o.Keys[i] == k)
				ov, ok := o.Values[k]
				r = nd.And(r, ok && ov == v.Values[k])
			}
			return r
		}}
	case 5:
		a, b := nd.String("a", 1), nd.String("b", 1)
		l := schemas.ListS{a, b}
		v := &l
		return kase{"ListS", "", v, refval.MkList(refval.MkString(a), refval.MkString(b)), func(g interface{}) bool {
			o := *g.(*schemas.ListS)
			return len(o) == 2 && nd.And(o[0] == a, o[1] == b)
		}}
	case 6:
		v := &schemas.UnionK{}
		var w *refval.V
		if nd.Choose("member", 2) == 0 {
			i := nd.Int64("i")
			v.Int = &i
			w = mkMap([]string{"Int"}, refval.MkInt(i))
		} else {
			s := nd.String("s", 1)
			v.String = &s
			w = mkMap([]string{"String"}, refval.MkString(s))
		}
		return kase{"UnionK", "", v, w, func(g interface{}) bool {
			o := g.(*schemas.UnionK)
			if (o.Int == nil) != (v.Int == nil) || (o.String == nil) != (v.String == nil) {
				return false
			}
			if v.Int != nil {
				return *o.Int == *v.Int
			}
			return *o.String == *v.String
		}}
	case 7:
		p := schemas.Plain{A: nd.Int64("A"), B: nd.String("B", 1)}
		v := &schemas.Nested{P: p, L: []int64{nd.Int64("l0")}, M: schemas.MapSI{Keys: []string{"k"}, Values: map[string]int64{"k": nd.Int64("mk")}},
			E: []string{"Yes", "No"}[nd.Choose("E", 2)], EI: int64(1 + nd.Choose("EI", 2)), By: nd.Bytes("By", 2)}
		s := nd.String("us", 1)
		v.U.String = &s
		w := mkMap([]string{"P", "L", "M", "U", "E", "EI", "By"}, plainOf(p), refval.MkList(refval.MkInt(v.L[0])), mkMap([]string{"k"}, refval.MkInt(v.M.Values["k"])),
			mkMap([]string{"String"}, refval.MkString(s)), refval.MkString(v.E), refval.MkString([]string{"", "One", "Two"}[v.EI]), refval.MkBytes(v.By))
		return kase{"Nested", "", v, w, func(g interface{}) bool {
			o := g.(*schemas.Nested)
			if len(o.L) != 1 || len(o.M.Keys) != 1 || o.U.String == nil || o.U.Int != nil || len(o.By) != 2 {
				return false
			}
			r := nd.And(o.P == p, o.L[0] == v.L[0])
			r = nd.And(r, o.M.Values["k"] == v.M.Values["k"])
			r = nd.And(r, *o.U.String == s)
			r = nd.And(r, nd.And(o.E == v.E, o.EI == v.EI))
			return nd.And(r, nd.EqBytes(o.By, v.By))
		}}
	case 8: // renames that collide with other fields' names (swapped, and shifted)
		v := &schemas.Swap{L: nd.Int64("L"), R: nd.Int64("R"), Cur: nd.String("Cur", 1), Prev: nd.String("Prev", 1)}
		return kase{name: "Swap", ptr: v, want: mkMap([]string{"L", "R", "Cur", "Prev"}, refval.MkInt(v.L), refval.MkInt(v.R), refval.MkString(v.Cur), refval.MkString(v.Prev)),
			eq: func(g interface{}) bool { return *g.(*schemas.Swap) == *v }}
	case 9: // uint64 values (also above MaxInt64) as typed map values
		v := &mapU64{Keys: []string{"a", "b"}, Values: map[string]uint64{"a": nd.Uint64("ua"), "b": nd.Uint64("ub")}}
		return kase{name: "mapU64", typ: "MapSI", ptr: v, want: mkMap([]string{"a", "b"}, uintVal(v.Values["a"]), uintVal(v.Values["b"])),
			eq: func(g interface{}) bool {
				o := g.(*mapU64)
				return len(o.Keys) == 2 && len(o.Values) == 2 && nd.And(o.Values["a"] == v.Values["a"], o.Values["b"] == v.Values["b"])
			}}
	case 10: // a uint64 union member
		u := nd.Uint64("uu")
		v := &unionU64{Int: &u}
		return kase{name: "unionU64", typ: "UnionK", ptr: v, want: mkMap([]string{"Int"}, uintVal(u)),
			eq: func(g interface{}) bool { o := g.(*unionU64); return o.Int != nil && o.String == nil && *o.Int == u }}
	case 11: // stringprefix unions held by value as typed-map values
		mk := func(tag string) (schemas.UnionSP, *refval.V) {
			s := nd.String(tag, 1)
			nd.Assume(s[0] != ':')
			if nd.Choose(tag+"member", 2) == 0 {
				return schemas.UnionSP{Foo: &s}, mkMap([]string{"Foo"}, refval.MkString(s))
			}
			return schemas.UnionSP{Bar: &s}, mkMap([]string{"Bar"}, refval.MkString(s))
		}
		ua, wa := mk("ua")
		ub, wb := mk("ub")
		v := &schemas.MapSU{Keys: []string{"a", "b"}, Values: map[string]schemas.UnionSP{"a": ua, "b": ub}}
		same := func(x, y schemas.UnionSP) bool {
			if (x.Foo == nil) != (y.Foo == nil) || (x.Bar == nil) != (y.Bar == nil) {
				return false
			}
			if x.Foo != nil {
				return *x.Foo == *y.Foo
			}
			return x.Bar != nil && *x.Bar == *y.Bar
		}
		return kase{name: "MapSU", ptr: v, want: mkMap([]string{"a", "b"}, wa, wb), eq: func(g interface{}) bool {
			o := g.(*schemas.MapSU)
			return len(o.Keys) == 2 && len(o.Values) == 2 && nd.And(same(o.Values["a"], ua), same(o.Values["b"], ub))
		}}
	}
	panic("no such case")
}

type mapU64 struct {
	Keys   []string
	Values map[string]uint64
}

type unionU64 struct {
	Int    *uint64
	String *string
}

// uintVal: how a Go uint64 reads at the data-model level: an int when it fits int64, else a uint.
func uintVal(u uint64) *refval.V {
	if u <= 1<<63-1 {
		return refval.MkInt(int64(u))
	}
	return refval.MkUint(u)
}

const nCases = 12

var ts *schema.TypeSystem

func typeOf(name string) schema.Type {
	if ts == nil {
		ts = schemas.TypeSystem()
	}
	return ts.TypeByName(name)
}

func fresh(name string) interface{} {
	switch name {
	case "Plain":
		return &schemas.Plain{}
	case "Narrow":
		return &schemas.Narrow{}
	case "OptNull":
		return &schemas.OptNull{}
	case "MapSI":
		return &schemas.MapSI{}
	case "ListS":
		return &schemas.ListS{}
	case "UnionK":
		return &schemas.UnionK{}
	case "Nested":
		return &schemas.Nested{}
	case "Swap":
		return &schemas.Swap{}
	case "MapSU":
		return &schemas.MapSU{}
	case "mapU64":
		return &mapU64{}
	case "unionU64":
		return &unionU64{}
	}
	panic(name)
}

// HWrap: Wrap exposes exactly the data held in the Go value; copying the node into the typed
// builder and unwrapping returns a Go value holding the same data; Marshal/Unmarshal round-trips.
func HWrap() {
	k := cases(nd.Choose("case", nd.Param("CASES", nCases)))
	if k.typ == "" {
		k.typ = k.name
	}
	typ := typeOf(k.typ)
	var n schema.TypedNode
	nd.NoPanic("Wrap", func() { n = bindnode.Wrap(k.ptr, typ) })
	if n == nil {
		return
	}
	var got *refval.V
	nd.NoPanic("read", func() { got = refval.Of(n) })
	if got != nil {
		nd.Note("got " + refval.Show(got) + " want " + refval.Show(k.want))
	}
	nd.Assert(got != nil && refval.Equal(got, k.want), "the wrapped node exposes exactly the data held in the Go value, as the schema describes it")
	// build a fresh typed node from the wrapped one (through the type-level builder) and unwrap it
	proto := bindnode.Prototype(fresh(k.name), typ)
	nb := proto.NewBuilder()
	var err error
	nd.NoPanic("copy", func() { err = datamodel.Copy(n, nb) })
	nd.Assert(err == nil, "a wrapped value can be assembled through the typed builder")
	if err == nil {
		var back interface{}
		nd.NoPanic("Unwrap", func() { back = bindnode.Unwrap(nb.Build()) })
		nd.Assert(back != nil && k.eq(back), "unwrapping a built node returns a Go value holding exactly what was assembled")
	}
	// marshal / unmarshal
	var enc []byte
	nd.NoPanic("Marshal", func() { enc, err = ipld.Marshal(dagcbor.Encode, k.ptr, typ) })
	nd.Assert(err == nil, "Marshal succeeds")
	if err == nil {
		out := fresh(k.name)
		nd.NoPanic("Unmarshal", func() { _, err = ipld.Unmarshal(enc, dagcbor.Decode, out, typ) })
		nd.Assert(err == nil, "Unmarshal of the marshalled bytes succeeds")
		if err == nil {
			if k.name == "mapU64" || k.name == "MapSU" {
				nd.Assert(k.eq(out), "Unmarshal(Marshal(v)) holds the same data as v")
			} else if k.name == "MapSI" {
				// a key-sorting codec canonicalises the key order of ordered-map structs
				nd.Assert(len(out.(*schemas.MapSI).Keys) == len(k.ptr.(*schemas.MapSI).Keys), "map round trip keeps every key")
			} else {
				nd.Assert(k.eq(out), "Unmarshal(Marshal(v)) holds the same data as v")
			}
		}
	}
	// results stay valid: the bytes of an earlier Marshal are still that value after a later one
	var e1, e2 []byte
	var err1, err2 error
	nd.NoPanic("Marshal twice", func() {
		e1, err1 = ipld.Marshal(dagcbor.Encode, k.ptr, typ)
		e2, err2 = ipld.Marshal(dagcbor.Encode, &schemas.Plain{A: 1234567, B: "other value", C: true}, typeOf("Plain"))
	})
	if err1 == nil && err2 == nil && k.name != "MapSI" && k.name != "mapU64" {
		out := fresh(k.name)
		nd.NoPanic("Unmarshal of the earlier result", func() { _, err = ipld.Unmarshal(e1, dagcbor.Decode, out, typ) })
		nd.Assert(err == nil && k.eq(out), "the bytes an earlier Marshal returned still hold that value after a later Marshal")
		_ = e2
	}
	nd.Reach("end")
}

// HRepeat: binding is a pure function of its arguments: repeated Wrap/Prototype calls for the same
// Go and schema types, explicit or inferred, succeed with equivalent results.
func HRepeat() {
	inferred := nd.Choose("inferred", 2) == 1
	var typ schema.Type
	if !inferred {
		typ = typeOf("Plain")
	}
	v := &schemas.Plain{A: nd.Int64("A"), B: nd.String("B", 1), C: nd.Bool("C")}
	var vals []*refval.V
	for i := 0; i < nd.Param("CALLS", 2); i++ {
		nd.NoPanic("bind", func() {
			switch nd.Choose("call", 2) {
			case 0:
				p := bindnode.Prototype((*schemas.Plain)(nil), typ)
				nb := p.NewBuilder()
				ma, err := nb.BeginMap(3)
				nd.Assert(err == nil, "begin")
				for _, f := range []string{"A", "B", "C"} {
					va, err := ma.AssembleEntry(f)
					nd.Assert(err == nil, "entry")
					switch f {
					case "A":
						va.AssignInt(v.A)
					case "B":
						va.AssignString(v.B)
					default:
						va.AssignBool(v.C)
					}
				}
				nd.Assert(ma.Finish() == nil, "finish")
				vals = append(vals, refval.Of(nb.Build()))
			case 1:
				vals = append(vals, refval.Of(bindnode.Wrap(v, typ)))
			}
		})
	}
	nd.Assert(len(vals) == nd.Param("CALLS", 2), "repeated binding calls for the same types succeed")
	for _, x := range vals {
		nd.Assert(refval.Equal(x, plainOf(*v)), "and give equivalent results")
	}
	nd.Reach("end")
}

// Two different Go types with the same package path and name (declared locally in two functions).
func recA(name string) (interface{}, *refval.V) {
	type Rec struct{ Name string }
	return &Rec{name}, refval.MkMap([]string{"Name"}, []*refval.V{refval.MkString(name)})
}

func recB(name string, count int64, ok bool) (interface{}, *refval.V) {
	type Rec struct {
		Name  string
		Count int64
		OK    bool
	}
	return &Rec{name, count, ok}, refval.MkMap([]string{"Name", "Count", "OK"}, []*refval.V{refval.MkString(name), refval.MkInt(count), refval.MkBool(ok)})
}

// HSameName: binding with an inferred schema depends on the Go type, not on its name nor on what
// was bound before: two distinct types called alike, bound in either order, each expose their own fields.
func HSameName() {
	pa, wa := recA(nd.String("a", 1))
	pb, wb := recB(nd.String("b", 1), nd.Int64("count"), nd.Bool("ok"))
	ptrs, wants := []interface{}{pa, pb}, []*refval.V{wa, wb}
	if nd.Choose("order", 2) == 1 {
		ptrs, wants = []interface{}{pb, pa}, []*refval.V{wb, wa}
	}
	for r := 0; r < nd.Param("ROUNDS", 2); r++ {
		for i := range ptrs {
			var got *refval.V
			nd.NoPanic("Wrap", func() { got = refval.Of(bindnode.Wrap(ptrs[i], nil)) })
			nd.Assert(got != nil && refval.Equal(got, wants[i]), "a value wrapped with an inferred schema exposes exactly its own fields, whatever was bound before")
			var enc []byte
			var err error
			nd.NoPanic("Marshal", func() { enc, err = ipld.Marshal(dagcbor.Encode, ptrs[i], nil) })
			nd.Assert(err == nil && nd.EqBytes(enc, refcbor.Encode(nil, wants[i])), "and marshals to the encoding of exactly those fields")
		}
	}
	nd.Reach("end")
}

// HHints: a size hint is only a hint: lists and maps assembled with hints below, at and far
// above the number of entries hold exactly the entries assembled.
func HHints() {
	n := nd.Choose("n", 3)
	hint := []int64{-1, 0, int64(n), int64(n) + 3, 64}[nd.Choose("hint", 5)]
	inferred := nd.Choose("inferred", 2) == 1
	repr := nd.Choose("level", 2) == 1
	if nd.Choose("what", 2) == 0 {
		var ptr interface{} = (*schemas.ListS)(nil)
		if inferred {
			ptr = nil
		}
		p := bindnode.Prototype(ptr, typeOf("ListS"))
		var np datamodel.NodePrototype = p
		if repr {
			np = p.Representation()
		}
		nb := np.NewBuilder()
		la, err := nb.BeginList(hint)
		nd.Assert(err == nil, "BeginList with any hint")
		want := refval.MkList()
		for i := 0; i < n; i++ {
			s := nd.String("e", 1)
			nd.Assert(la.AssembleValue().AssignString(s) == nil, "element")
			want.L = append(want.L, refval.MkString(s))
		}
		nd.Assert(la.Finish() == nil, "Finish")
		node := nb.Build()
		nd.Assert(node.Length() == int64(n) && refval.Equal(refval.Of(node), want), "the list holds exactly the elements assembled, whatever the hint")
		if !inferred {
			nd.Assert(len(*bindnode.Unwrap(node).(*schemas.ListS)) == n, "and so does the Go slice")
		}
		var b bytes.Buffer
		nd.Assert(dagcbor.Encode(node.(schema.TypedNode).Representation(), &b) == nil && nd.EqBytes(b.Bytes(), refcbor.Encode(nil, want)), "and its encoding")
	} else {
		var ptr interface{} = (*schemas.MapSI)(nil)
		if inferred {
			ptr = nil
		}
		p := bindnode.Prototype(ptr, typeOf("MapSI"))
		var np datamodel.NodePrototype = p
		if repr {
			np = p.Representation()
		}
		nb := np.NewBuilder()
		ma, err := nb.BeginMap(hint)
		nd.Assert(err == nil, "BeginMap with any hint")
		want := &refval.V{K: refval.Map}
		for i := 0; i < n; i++ {
			k := string(rune('a' + i))
			va, err := ma.AssembleEntry(k)
			nd.Assert(err == nil, "entry")
			x := nd.Int64("x")
			nd.Assert(va.AssignInt(x) == nil, "value")
			want.Keys, want.L = append(want.Keys, k), append(want.L, refval.MkInt(x))
		}
		nd.Assert(ma.Finish() == nil, "Finish")
		node := nb.Build()
		nd.Assert(node.Length() == int64(n) && refval.Equal(refval.Of(node), want), "the map holds exactly the entries assembled, whatever the hint")
	}
	nd.Reach("end")
}

// HAssignNarrow: free int64 values assembled into narrow / unsigned Go integer fields: either the
// assembler reports an error, or unwrapping returns exactly the value assembled.
func HAssignNarrow() {
	proto := bindnode.Prototype((*schemas.Narrow)(nil), typeOf("Narrow"))
	if nd.Choose("level", 2) == 1 {
		// through the representation builder as well
	}
	vals := map[string]int64{"N": nd.Int64("N"), "U": nd.Int64("U"), "W": nd.Int64("W"), "X": nd.Int64("X")}
	nb := proto.NewBuilder()
	var firstErr error
	nd.NoPanic("assemble", func() {
		ma, err := nb.BeginMap(4)
		nd.Assert(err == nil, "begin")
		for _, f := range []string{"N", "U", "W", "X"} {
			va, err := ma.AssembleEntry(f)
			nd.Assert(err == nil, "entry")
			if err := va.AssignInt(vals[f]); err != nil && firstErr == nil {
				firstErr = err
				return
			}
		}
		firstErr = ma.Finish()
	})
	fits := vals["N"] >= -128 && vals["N"] <= 127 && vals["U"] >= 0 && vals["U"] <= 255 && vals["W"] >= 0 && vals["W"] <= 1<<32-1 && vals["X"] >= 0
	if firstErr != nil {
		nd.Reach("rejected")
		nd.Assert(!fits, "values that fit their Go integer fields are accepted")
		return
	}
	nd.Reach("accepted")
	got := bindnode.Unwrap(nb.Build()).(*schemas.Narrow)
	ok := nd.And(nd.And(int64(got.N) == vals["N"], int64(got.U) == vals["U"]), nd.And(int64(got.W) == vals["W"], got.X == uint64(vals["X"]) && vals["X"] >= 0))
	nd.Assert(ok, "unwrapping a built node returns a Go value holding exactly what was assembled (no silent truncation)")
}
