// Package c07: a selector walk visits exactly what the selector denotes, in document order.
package c07

import (
	"github.com/ipld/go-ipld-prime/datamodel"
	nd "github.com/ipld/go-ipld-prime/internal/verifnd"
	"github.com/ipld/go-ipld-prime/traversal"
	"github.com/ipld/go-ipld-prime/traversal/selector"
	"github.com/ipld/go-ipld-prime/zzverif/ref/gen"
	"github.com/ipld/go-ipld-prime/zzverif/ref/graph"
	"github.com/ipld/go-ipld-prime/zzverif/ref/refsel"
	"github.com/ipld/go-ipld-prime/zzverif/ref/refval"
	"github.com/ipld/go-ipld-prime/zzverif/ref/selgen"
)

var graphs = []string{
	"[[tn]s3[b3]]",
	"{c[ts1]c{cnct}cs2}",
	"[<[tn]>{c<{cs1}>}n]",
	"{1t1<[s1]>}",
	"[<[t]><[t]>]",
}

// boundRanges: ranges of width <= 3 or > 1024 starting within [-2,3] (before, inside and beyond the lists of
// the graphs): the enumeration of a range's indices is a loop with a symbolic trip count.
func boundRanges(s *selgen.Sel) {
	if s.Op == 'r' {
		// narrow ranges are enumerated index by index (a loop with a symbolic trip count, so the
		// width is bounded); ranges wider than the enumeration limit take the other code path
		// and may end anywhere
		w := uint64(s.End) - uint64(s.Start)
		nd.Assume(s.Start >= -2 && s.Start <= 3 && s.End > s.Start)
		nd.Assume(nd.Or(w <= 3, w > 1024))
	}
	if s.Op == '.' && s.Subset {
		nd.Assume(s.To < 0 || s.From <= s.To) // what a valid document may say
	}
	if s.Op == 'R' && !s.LimitNone {
		nd.Assume(s.Depth >= 1) // depth <= 0 is covered by C10 only
	}
	for _, c := range s.Subs {
		boundRanges(c)
	}
}

type seen struct {
	path   datamodel.Path
	v      *refval.V
	reason byte
}

func samePath(p datamodel.Path, want []refsel.Seg) bool {
	if p.Len() != len(want) {
		return false
	}
	r := true
	for i, s := range p.Segments() {
		if want[i].IsInt {
			ix, err := s.Index()
			r = nd.And(r, err == nil && ix == want[i].I)
		} else {
			r = nd.And(r, s.String() == want[i].S)
		}
	}
	return r
}

func check(s *selgen.Sel, g *graph.G) {
	doc := gen.MustBuild(selgen.Doc(s))
	sel, err := selector.CompileSelector(doc)
	if err != nil {
		// only a recursion without an edge is rejected among the generated (well-typed) documents
		nd.Assert(!selgen.HasEdgeEverywhere(s), "a well-formed selector document compiles")
		nd.Reach("rejected")
		return
	}
	nd.Reach("compiled")
	ref := refsel.Walk(s, g.V)
	cfg := &traversal.Config{LinkSystem: g.LS, LinkTargetNodePrototypeChooser: graph.Chooser}
	var got []seen
	var werr error
	nd.NoPanic("WalkAdv", func() {
		werr = traversal.Progress{Cfg: cfg}.WalkAdv(g.Root, sel, func(p traversal.Progress, n datamodel.Node, r traversal.VisitReason) error {
			got = append(got, seen{p.Path, refval.Of(n), byte(r)})
			return nil
		})
	})
	nd.Assert(werr == nil, "the walk succeeds")
	nd.ObserveInt("visits", int64(len(got)))
	nd.Assert(len(got) == len(ref.Visits), "the walk makes as many visits as the selector denotes")
	if len(got) == len(ref.Visits) {
		for i, v := range ref.Visits {
			nd.Assert(samePath(got[i].path, v.Path), "visits happen at the denoted paths, in document order")
			nd.Assert(got[i].reason == v.Reason, "each visit has the denoted reason (matched or candidate)")
			nd.Assert(refval.Equal(got[i].v, v.V), "each visit presents the denoted node (sliced for subset matches)")
		}
	}
	nd.Assert(len(g.Opens) == len(ref.Loads), "exactly the denoted links are loaded")
	if len(g.Opens) == len(ref.Loads) {
		for i, l := range ref.Loads {
			nd.Assert(g.Opens[i].Binary() == gen.LinkOf(l).Binary(), "links are loaded in the denoted order")
		}
	}
	// the matching walk sees precisely the matched subset
	var gm []seen
	nd.NoPanic("WalkMatching", func() {
		werr = traversal.Progress{Cfg: cfg}.WalkMatching(g.Root, sel, func(p traversal.Progress, n datamodel.Node) error {
			gm = append(gm, seen{p.Path, refval.Of(n), 'm'})
			return nil
		})
	})
	nd.Assert(werr == nil, "the matching walk succeeds")
	k := 0
	for _, v := range ref.Visits {
		if v.Reason != 'm' {
			continue
		}
		if k < len(gm) {
			nd.Assert(nd.And(samePath(gm[k].path, v.Path), refval.Equal(gm[k].v, v.V)), "the matching walk sees the matched nodes in order")
		}
		k++
	}
	nd.Assert(k == len(gm), "the matching walk sees exactly the matched subset")
	nd.Reach("end")
}

// HWalk: every selector of the grammar up to depth D over every graph.
func HWalk() {
	g := &selgen.Gen{FieldLen: 1, Fields: 2, Ops: ".afir|R", Subsets: true}
	if nd.Param("LEAN", 0) == 1 {
		g = &selgen.Gen{FieldLen: 1, Fields: 1, Ops: "afir|R", Subsets: true}
	}
	gr := graph.New("g", graphs[nd.Choose("graph", nd.Param("G", len(graphs)))])
	g.StopLinks = linksOf(gr.V, nil)
	s := g.Top(nd.Param("D", 2))
	boundRanges(s)
	check(s, gr)
}

var stopGraphs = []string{
	"[<[tn]>{c<{cs1}>}n]",
	"{c<{c<[tn]>cn}>cs1}",
	"[<[t]><[t]>]",
}

// HStopAt: a recursion with a stop-at-link condition over sequences of up to two steps before the
// edge: the condition applies at every step under the recursion, not only where the edge sits.
func HStopAt() {
	g := &selgen.Gen{FieldLen: 1, Fields: 1, Ops: "afi|"}
	gr := graph.New("g", stopGraphs[nd.Choose("graph", nd.Param("G", len(stopGraphs)))])
	links := linksOf(gr.V, nil)
	g.MaxDepth = 3
	s := &selgen.Sel{Op: 'R'}
	if nd.Choose("lim", 2) == 1 {
		s.LimitNone = true
	} else {
		s.Depth = nd.Int64("depth")
	}
	s.StopAt = links[nd.Choose("stop", len(links))]
	s.Subs = []*selgen.Sel{g.Gen(nd.Param("D", 2), true)}
	boundRanges(s)
	check(s, gr)
}

// linksOf: every link value of the graph (followed through blocks), candidates for stop-at conditions.
func linksOf(v *refval.V, acc []*refval.V) []*refval.V {
	if v.K == refval.Link {
		acc = append(acc, v)
		return linksOf(v.T, acc)
	}
	for _, c := range v.L {
		acc = linksOf(c, acc)
	}
	return acc
}
