// Command gencmd runs the code generator of the working tree on the schema family (C13 step 1).
package main

import (
	"fmt"
	"os"

	gengo "github.com/ipld/go-ipld-prime/schema/gen/go"
	"github.com/ipld/go-ipld-prime/zzverif/schemas"
)

func main() {
	out := os.Args[1]
	if err := os.MkdirAll(out, 0o755); err != nil {
		panic(err)
	}
	ts := schemas.GenTypeSystem()
	gengo.Generate(out, "genfam", *ts, &gengo.AdjunctCfg{})
	fmt.Println("generated into", out)
}
