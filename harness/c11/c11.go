// Package c11: a finished node never changes, and reading it is repeatable.
package c11

import (
	"bytes"

	"github.com/ipld/go-ipld-prime/codec/dagcbor"
	"github.com/ipld/go-ipld-prime/codec/dagjson"
	"github.com/ipld/go-ipld-prime/datamodel"
	nd "github.com/ipld/go-ipld-prime/internal/verifnd"
	"github.com/ipld/go-ipld-prime/node/basicnode"
	"github.com/ipld/go-ipld-prime/node/bindnode"
	"github.com/ipld/go-ipld-prime/schema"
	"github.com/ipld/go-ipld-prime/traversal"
	"github.com/ipld/go-ipld-prime/traversal/selector"
	"github.com/ipld/go-ipld-prime/zzverif/ref/gen"
	"github.com/ipld/go-ipld-prime/zzverif/ref/nodecheck"
	"github.com/ipld/go-ipld-prime/zzverif/ref/refschema"
	"github.com/ipld/go-ipld-prime/zzverif/ref/refsel"
	"github.com/ipld/go-ipld-prime/zzverif/ref/refval"
	"github.com/ipld/go-ipld-prime/zzverif/ref/selgen"
	"github.com/ipld/go-ipld-prime/zzverif/schemas"
)

var shapes = []string{"{1t1s1}", "[b1[s1]{ct}]", "b2", "s2", "[i]", "{c[ts1]c{cnct}}", "[]", "{}"}

var protoFor = map[refval.Kind]datamodel.NodePrototype{refval.Bytes: basicnode.Prototype.Bytes, refval.String: basicnode.Prototype.String,
	refval.List: basicnode.Prototype.List, refval.Map: basicnode.Prototype.Map}

func compile(s *selgen.Sel) selector.Selector {
	sel, err := selector.CompileSelector(gen.MustBuild(selgen.Doc(s)))
	if err != nil {
		panic(err)
	}
	return sel
}

var allRec = &selgen.Sel{Op: 'R', LimitNone: true, Subs: []*selgen.Sel{{Op: '|', Subs: []*selgen.Sel{{Op: '.'}, {Op: 'a', Subs: []*selgen.Sel{{Op: '@'}}}}}}}

// op performs one library operation that involves n (and possibly the builder that made it).
func op(k int, n datamodel.Node, v *refval.V, nb datamodel.NodeBuilder) {
	switch k {
	case 0: // read everything again
		nodecheck.Check(n, v, nodecheck.Opts{Probe: nd.String("probe", 1), ProbeIx: nd.Int64("ix"), Deep: true, Label: "re-read: "})
	case 1: // encode
		var b1, b2 bytes.Buffer
		dagcbor.Encode(n, &b1)
		dagjson.Encode(n, &b2)
	case 2: // assign into another builder of the same prototype family, then reset and reuse that builder
		var np datamodel.NodePrototype = basicnode.Prototype.Any
		if nd.Choose("proto", 2) == 1 {
			np = protoFor[v.K]
		}
		nb2 := np.NewBuilder()
		nd.Assert(nb2.AssignNode(n) == nil, "AssignNode of a finished node")
		c := nb2.Build()
		nb2.Reset()
		gen.Assign(nb2, gen.FromShape("other", "{1i}"))
		_ = c
	case 3: // embed into larger structures that are then extended
		nbl := basicnode.Prototype.List.NewBuilder()
		la, _ := nbl.BeginList(2)
		nd.Assert(la.AssembleValue().AssignNode(n) == nil, "embed in list")
		gen.Assign(la.AssembleValue(), gen.FromShape("more", "{1s1}"))
		la.Finish()
		nbm := basicnode.Prototype.Map.NewBuilder()
		ma, _ := nbm.BeginMap(2)
		va, _ := ma.AssembleEntry("x")
		nd.Assert(va.AssignNode(n) == nil, "embed in map")
		va, _ = ma.AssembleEntry("y")
		gen.Assign(va, gen.FromShape("more2", "[i]"))
		ma.Finish()
		if v.K == refval.Map || v.K == refval.List {
			// copy, then keep writing into the copy's builder from scratch
			nb3 := basicnode.Prototype.Any.NewBuilder()
			datamodel.Copy(n, nb3)
			nb3.Build()
		}
	case 4: // reset and reuse the builder that produced n for other values of the same kind
		other := map[refval.Kind][2]string{refval.Map: {"{1s12i}", "{1n}"}, refval.List: {"[s2i]", "[]"}, refval.Bytes: {"b1", "b3"}, refval.String: {"s1", "s3"}}[v.K]
		nb.Reset()
		nd.Assert(gen.Assign(nb, gen.FromShape("second", other[0])) == nil, "reuse of the producing builder")
		nb.Build()
		nb.Reset()
		gen.Assign(nb, gen.FromShape("third", other[1]))
	case 5: // decode into the producing builder after Reset
		nb.Reset()
		dagcbor.Decode(nb, bytes.NewReader(append([]byte{0x82}, nd.Bytes("cbor", 2)...)))
	case 6: // walk everything
		traversal.WalkAdv(n, compile(allRec), func(traversal.Progress, datamodel.Node, traversal.VisitReason) error { return nil })
	case 7: // subset matches on every string/bytes leaf, reading the matched (sliced) nodes
		sub := &selgen.Sel{Op: 'R', LimitNone: true, Subs: []*selgen.Sel{{Op: '|', Subs: []*selgen.Sel{{Op: '.', Subset: true, From: nd.Int64("from"), To: nd.Int64("to")}, {Op: 'a', Subs: []*selgen.Sel{{Op: '@'}}}}}}}
		nd.Assume(sub.Subs[0].Subs[0].To < 0 || sub.Subs[0].Subs[0].From <= sub.Subs[0].Subs[0].To)
		traversal.WalkMatching(n, compile(sub), func(p traversal.Progress, m datamodel.Node) error {
			refval.Of(m)
			if lb, ok := m.(datamodel.LargeBytesNode); ok {
				if rs, err := lb.AsLargeBytes(); err == nil {
					rs.Read(make([]byte, 1))
				}
			}
			return nil
		})
	case 8: // focused transform of a child, and a walking transform of everything
		if v.K == refval.Map && len(v.Keys) > 0 {
			traversal.FocusedTransform(n, datamodel.NewPath([]datamodel.PathSegment{datamodel.PathSegmentOfString(v.Keys[0])}), func(traversal.Progress, datamodel.Node) (datamodel.Node, error) {
				return basicnode.NewString("replaced"), nil
			}, false)
		}
		if v.K == refval.List && len(v.L) > 0 {
			traversal.FocusedTransform(n, datamodel.NewPath([]datamodel.PathSegment{datamodel.PathSegmentOfInt(0)}), func(traversal.Progress, datamodel.Node) (datamodel.Node, error) {
				return nil, nil
			}, false)
		}
		traversal.WalkTransforming(n, compile(allRec), func(p traversal.Progress, x datamodel.Node) (datamodel.Node, error) {
			if x.Kind() == datamodel.Kind_Int || x.Kind() == datamodel.Kind_String {
				return basicnode.NewBool(true), nil
			}
			return x, nil
		})
	}
}

const nOps = 9

// HHistory: snapshot, a history of operations, snapshot again.
func HHistory() {
	v := gen.FromShape("", shapes[nd.Choose("shape", nd.Param("S", len(shapes)))])
	var np datamodel.NodePrototype = basicnode.Prototype.Any
	if nd.Choose("nproto", 2) == 1 {
		np = protoFor[v.K]
	}
	nb := np.NewBuilder()
	nd.Assert(gen.Assign(nb, v) == nil, "build")
	n := nb.Build()
	snap := refval.Of(n)
	nd.Assert(refval.Equal(snap, v), "first read is the value built")
	steps := nd.Param("OPS", 1)
	for i := 0; i < steps; i++ {
		k := nd.Choose("op", nOps)
		nd.NoPanic("operation", func() { op(k, n, v, nb) })
	}
	again := refval.Of(n)
	nd.Assert(refval.Equal(again, snap), "every read of the node returns what the first read returned")
	nodecheck.Check(n, v, nodecheck.Opts{Probe: nd.String("probe2", 1), ProbeIx: nd.Int64("ix2"), Deep: true, Label: "after: "})
	nd.Reach("end")
}

// HStaleAssemblers: assemblers handed out while a list or map was being built are used again
// after Finish and Build (a caller error the library answers with a panic or an error): the
// finished node does not change.
func HStaleAssemblers() {
	var np datamodel.NodePrototype = basicnode.Prototype.Any
	listKind := nd.Choose("kind", 2) == 0
	if nd.Choose("proto", 2) == 1 {
		if listKind {
			np = basicnode.Prototype.List
		} else {
			np = basicnode.Prototype.Map
		}
	}
	nb := np.NewBuilder()
	var v *refval.V
	var stale []datamodel.NodeAssembler
	var la datamodel.ListAssembler
	var ma datamodel.MapAssembler
	x, y := nd.Int64("x"), nd.Int64("y")
	if listKind {
		la, _ = nb.BeginList(2)
		va := la.AssembleValue()
		va.AssignInt(x)
		vb := la.AssembleValue()
		vb.AssignInt(y)
		stale = []datamodel.NodeAssembler{va, vb}
		nd.Assert(la.Finish() == nil, "Finish")
		v = refval.MkList(refval.MkInt(x), refval.MkInt(y))
	} else {
		ma, _ = nb.BeginMap(2)
		va, _ := ma.AssembleEntry("a")
		va.AssignInt(x)
		ka := ma.AssembleKey()
		ka.AssignString("b")
		vb := ma.AssembleValue()
		vb.AssignInt(y)
		stale = []datamodel.NodeAssembler{va, ka, vb}
		nd.Assert(ma.Finish() == nil, "Finish")
		v = refval.MkMap([]string{"a", "b"}, []*refval.V{refval.MkInt(x), refval.MkInt(y)})
	}
	n := nb.Build()
	nd.Assert(refval.Equal(refval.Of(n), v), "first read is the value built")
	which := nd.Choose("stale", len(stale)+1)
	nd.Panics(func() {
		if which < len(stale) {
			switch nd.Choose("call", 3) {
			case 0:
				stale[which].AssignInt(nd.Int64("z"))
			case 1:
				stale[which].AssignNode(basicnode.NewString("zz"))
			case 2:
				if l2, err := stale[which].BeginList(1); err == nil {
					l2.AssembleValue().AssignInt(1)
					l2.Finish()
				}
			}
		} else if listKind {
			la.AssembleValue().AssignInt(nd.Int64("z"))
			la.Finish()
		} else {
			if va, err := ma.AssembleEntry("c"); err == nil {
				va.AssignInt(nd.Int64("z"))
			}
			ma.Finish()
		}
	})
	nd.Assert(refval.Equal(refval.Of(n), v), "the finished node reads the same after stale assemblers were called")
	nd.Assert(n.Length() == 2, "and has the length it was built with")
	nd.Reach("end")
}

// HTypedHistory: the same for reflection-bound nodes: a finished typed map or list is assigned
// into other builders of its prototype, which are then extended or reused.
func HTypedHistory() {
	ts := schemas.TypeSystem()
	isMap := nd.Choose("kind", 2) == 0
	var proto schema.TypedPrototype
	var v *refval.V
	if isMap {
		proto = bindnode.Prototype((*schemas.MapSI)(nil), ts.TypeByName("MapSI"))
		v = refval.MkMap([]string{"a", "b"}, []*refval.V{refval.MkInt(nd.Int64("x")), refval.MkInt(nd.Int64("y"))})
	} else {
		proto = bindnode.Prototype((*schemas.ListS)(nil), ts.TypeByName("ListS"))
		v = refval.MkList(refval.MkString(nd.String("x", 1)), refval.MkString(nd.String("y", 1)), refval.MkString(nd.String("w", 1)))
	}
	nb := proto.NewBuilder()
	nd.Assert(refschema.Assign(nb, v) == nil, "build")
	n := nb.Build()
	for round := 0; round < 2; round++ {
		nb2 := proto.NewBuilder()
		nd.Assert(nb2.AssignNode(n) == nil, "AssignNode of a finished typed node into a builder of its prototype")
		nd.Panics(func() {
			// the builder goes on (bindnode builders continue on the value they hold)
			if isMap {
				if ma, err := nb2.BeginMap(1); err == nil {
					if va, err := ma.AssembleEntry("c"); err == nil {
						va.AssignInt(nd.Int64("z"))
					}
					ma.Finish()
				}
			} else {
				if la, err := nb2.BeginList(1); err == nil {
					la.AssembleValue().AssignString(nd.String("z", 1))
					la.Finish()
				}
			}
			nb2.Build()
		})
	}
	nd.Assert(refval.Equal(refval.Of(n), v), "the finished typed node reads the same after copies of it were extended")
	nd.Assert(n.Length() == int64(len(v.L)), "and has the length it was built with")
	// through every lookup form too (the key the copies added is not in the original)
	nodecheck.Check(n, v, nodecheck.Opts{Probe: "c", ProbeIx: 3, Typed: true, Label: "after: "})
	nd.Reach("end")
}

// HStream: a reader-backed bytes node: repeated reads in any order of AsBytes / AsLargeBytes
// (fully or partially consumed) always see the whole content.
func HStream() {
	content := nd.Bytes("c", nd.Param("N", 3))
	var n datamodel.Node
	if nd.Choose("how", 2) == 0 {
		n = basicnode.NewBytesFromReader(bytes.NewReader(content))
	} else {
		nb := basicnode.Prototype.Bytes.NewBuilder()
		nd.Assert(nb.AssignNode(basicnode.NewBytesFromReader(bytes.NewReader(content))) == nil, "assign")
		n = nb.Build()
	}
	for i := 0; i < nd.Param("READS", 3); i++ {
		switch nd.Choose("read", 4) {
		case 0:
			b, err := n.AsBytes()
			nd.Assert(err == nil && nd.EqBytes(b, content), "AsBytes returns the whole content every time")
		case 1:
			rs, err := n.(datamodel.LargeBytesNode).AsLargeBytes()
			nd.Assert(err == nil, "AsLargeBytes")
			if err == nil {
				var buf bytes.Buffer
				buf.ReadFrom(rs)
				nd.Assert(nd.EqBytes(buf.Bytes(), content), "AsLargeBytes reads the whole content every time")
			}
		case 2: // partial read of a large-bytes reader, abandoned
			rs, err := n.(datamodel.LargeBytesNode).AsLargeBytes()
			if err == nil {
				rs.Read(make([]byte, 1))
			}
		case 3:
			var b1 bytes.Buffer
			nd.Assert(dagcbor.Encode(n, &b1) == nil, "encode")
			want := append([]byte{0x40 + byte(len(content))}, content...)
			nd.Assert(nd.EqBytes(b1.Bytes(), want), "encoding sees the whole content every time")
		}
	}
	nd.Reach("end")
}

// HSubsetReread: the node a subset matcher hands to the visitor (a slice of a bytes or string
// node) is itself a node: every read of it, through every accessor, any number of times, returns
// the selected range.
func HSubsetReread() {
	n0 := nd.Param("N", 6)
	content := nd.Bytes("c", n0)
	// concrete bounds (every pair, negative ones counting from the end): the slice's extent is a
	// matter of C07; here it fixes which bytes every later read must return
	from, to := int64(nd.Choose("from", 2*n0+1)-n0), int64(nd.Choose("to", 2*n0+1)-n0)
	nd.Assume(to < 0 || from <= to) // what a valid selector document may say
	ok, lo, hi := refsel.SliceBounds(from, to, int64(n0))
	var n datamodel.Node
	switch nd.Choose("how", 3) {
	case 0:
		n = basicnode.NewBytes(content)
	case 1:
		n = basicnode.NewBytesFromReader(bytes.NewReader(content))
	case 2:
		n = basicnode.NewString(string(content))
	}
	sel := compile(&selgen.Sel{Op: '.', Subset: true, From: from, To: to})
	var m datamodel.Node
	err := traversal.WalkMatching(n, sel, func(p traversal.Progress, x datamodel.Node) error {
		m = x
		return nil
	})
	nd.Assert(err == nil && (m != nil) == ok, "the subset matcher matches iff the range selects something")
	if m == nil || !ok {
		nd.Reach("nomatch")
		return
	}
	want := content[lo:hi]
	for i := 0; i < nd.Param("READS", 3); i++ {
		if m.Kind() == datamodel.Kind_String {
			s, err := m.AsString()
			nd.Assert(err == nil && s == string(want), "AsString of the matched slice returns the selected range every time")
			continue
		}
		lb, large := m.(datamodel.LargeBytesNode)
		switch nd.Choose("read", 3) {
		case 0:
			b, err := m.AsBytes()
			nd.Assert(err == nil && nd.EqBytes(b, want), "AsBytes of the matched slice returns the selected range every time")
		case 1:
			if large {
				rs, err := lb.AsLargeBytes()
				nd.Assert(err == nil, "AsLargeBytes")
				if err == nil {
					var buf bytes.Buffer
					buf.ReadFrom(rs)
					nd.Assert(nd.EqBytes(buf.Bytes(), want), "AsLargeBytes of the matched slice reads the selected range every time")
				}
			}
		case 2:
			if large {
				if rs, err := lb.AsLargeBytes(); err == nil {
					rs.Read(make([]byte, 1)) // partial read, abandoned
				}
			}
		}
	}
	// the node matched against is untouched
	if n.Kind() == datamodel.Kind_Bytes {
		b, err := n.AsBytes()
		nd.Assert(err == nil && nd.EqBytes(b, content), "the node the slice was taken from still reads whole")
	}
	nd.Reach("end")
}
