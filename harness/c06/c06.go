// Package c06: no load returns data that does not hash to its link, whatever the storage does.
package c06

import (
	"bytes"
	"errors"
	"io"

	"github.com/ipld/go-ipld-prime/datamodel"
	nd "github.com/ipld/go-ipld-prime/internal/verifnd"
	"github.com/ipld/go-ipld-prime/linking"
	cidlink "github.com/ipld/go-ipld-prime/linking/cid"
	"github.com/ipld/go-ipld-prime/node/basicnode"
	"github.com/ipld/go-ipld-prime/zzverif/ref/lsys"
	"github.com/ipld/go-ipld-prime/zzverif/ref/refval"

	_ "github.com/ipld/go-ipld-prime/codec/cbor"
	_ "github.com/ipld/go-ipld-prime/codec/dagcbor"
	_ "github.com/ipld/go-ipld-prime/codec/dagjson"
	_ "github.com/ipld/go-ipld-prime/codec/json"
	_ "github.com/ipld/go-ipld-prime/codec/raw"
)

var codecs = []uint64{0x71, 0x0129, 0x55, 0x51, 0x0200}

var errInjected = errors.New("injected storage error")

// HLoad: link digest D and storage content S are independent free byte strings.
func HLoad() {
	lsys.Register()
	codec := codecs[nd.Choose("codec", nd.Param("CODECS", len(codecs)))]
	S := nd.Bytes("S", nd.Choose("slen", nd.Param("N", 3)+1))
	var lnk cidlink.Link
	var hashOK bool
	if nd.Choose("hash", 2) == 0 { // identity: the digest is the expected content
		D := nd.Bytes("D", nd.Choose("dlen", nd.Param("N", 3)+1))
		lnk = lsys.V1Link(codec, 0, D)
		hashOK = nd.EqBytes(S, D)
	} else {
		D := nd.Bytes("D", 2)
		lnk = lsys.V1Link(codec, lsys.FoldCode, D)
		x, s := lsys.Fold(S)
		hashOK = nd.And(x == D[0], s == D[1])
	}
	rd := &lsys.Reader{S: S, FailAt: -1, Err: errInjected, Chunked: nd.Param("CHUNK", 1) == 1, Eager: nd.Choose("eager", 2) == 1}
	openFails := false
	switch nd.Choose("fault", 3) {
	case 1:
		rd.FailAt = nd.Choose("failat", len(S)+1)
	case 2:
		openFails = true
	}
	ls := cidlink.DefaultLinkSystem()
	ls.StorageReadOpener = func(linking.LinkContext, datamodel.Link) (io.Reader, error) {
		if openFails {
			return nil, errInjected
		}
		return rd, nil
	}
	var n datamodel.Node
	var rawb []byte
	var err error
	form := nd.Choose("form", 4)
	nd.NoPanic("load", func() {
		switch form {
		case 0:
			n, err = ls.Load(linking.LinkContext{}, lnk, basicnode.Prototype.Any)
		case 1:
			rawb, err = ls.LoadRaw(linking.LinkContext{}, lnk)
		case 2:
			n, rawb, err = ls.LoadPlusRaw(linking.LinkContext{}, lnk, basicnode.Prototype.Any)
		case 3:
			nb := basicnode.Prototype.Any.NewBuilder()
			err = ls.Fill(linking.LinkContext{}, lnk, nb)
			if err == nil {
				n = nb.Build()
			}
		}
	})
	nd.ObserveBool("loaded", err == nil)
	faulty := rd.FailAt >= 0 || openFails
	if err == nil {
		nd.Reach("loaded")
		nd.Assert(!faulty, "an injected open/read error surfaces as an error")
		nd.Assert(hashOK, "a load succeeds only if the stored bytes hash to the link")
		if form == 1 || form == 2 {
			nd.Assert(nd.EqBytes(rawb, S), "the raw bytes returned are the stored bytes")
		}
		if n != nil {
			// the node is what the codec decodes from S
			dec, e2 := ls.DecoderChooser(lnk)
			nd.Assert(e2 == nil, "decoder")
			nb := basicnode.Prototype.Any.NewBuilder()
			e3 := dec(nb, bytes.NewReader(S))
			nd.Assert(e3 == nil, "the stored bytes decode")
			if e3 == nil {
				nd.Assert(refval.Equal(refval.Of(n), refval.Of(nb.Build())), "the node returned is the decoding of the stored bytes")
			}
		}
	} else {
		nd.Reach("error")
		if form == 1 || form == 2 {
			nd.Assert(form == 2 || rawb == nil, "no raw bytes are returned with an error")
		}
		if !faulty {
			_, isMismatch := err.(linking.ErrHashMismatch)
			// hash mismatch takes precedence over any decoding error
			nd.Assert(nd.Implies(!hashOK, isMismatch), "bytes that do not hash to the link are reported as hash mismatch, also when they do not decode")
		}
	}
}

// HLoadTwice: the hash is checked on every load: a link that loaded cleanly once is checked
// again when the storage later returns other bytes for it (on the same link system or a copy).
func HLoadTwice() {
	lsys.Register()
	codec := []uint64{0x71, 0x0129, 0x55}[nd.Choose("codec", 3)]
	good := map[uint64][]byte{0x71: {0x82, 0x01, 0x02}, 0x0129: []byte("[1,2]"), 0x55: {1, 2, 3}}[codec]
	x, s := lsys.Fold(good)
	lnk := lsys.V1Link(codec, lsys.FoldCode, []byte{x, s})
	// what the storage returns later: the block with one byte replaced by a free byte
	later := append([]byte{}, good...)
	later[nd.Choose("pos", len(good))] = nd.Byte("later")
	cur := good
	ls := cidlink.DefaultLinkSystem()
	ls.StorageReadOpener = func(linking.LinkContext, datamodel.Link) (io.Reader, error) { return bytes.NewReader(cur), nil }
	load := func(l *linking.LinkSystem, form int) (datamodel.Node, []byte, error) {
		switch form {
		case 0:
			n, err := l.Load(linking.LinkContext{}, lnk, basicnode.Prototype.Any)
			return n, nil, err
		case 1:
			b, err := l.LoadRaw(linking.LinkContext{}, lnk)
			return nil, b, err
		case 2:
			return l.LoadPlusRaw(linking.LinkContext{}, lnk, basicnode.Prototype.Any)
		}
		nb := basicnode.Prototype.Any.NewBuilder()
		err := l.Fill(linking.LinkContext{}, lnk, nb)
		return nil, nil, err
	}
	_, _, err := load(&ls, nd.Choose("form1", 4))
	nd.Assert(err == nil, "the intact block loads")
	cur = later
	second := &ls
	if nd.Choose("copy", 2) == 1 {
		cp := ls
		second = &cp
	}
	lx, lsum := lsys.Fold(later)
	hashOK := nd.And(lx == x, lsum == s)
	n, rawb, err := load(second, nd.Choose("form2", 4))
	if err == nil {
		nd.Reach("loaded")
		nd.Assert(hashOK, "a later load succeeds only if the bytes the storage returns then hash to the link")
	} else {
		nd.Reach("error")
		nd.Assert(n == nil, "no node is returned with an error")
		_, isMismatch := err.(linking.ErrHashMismatch)
		nd.Assert(nd.Implies(!hashOK, isMismatch), "bytes that do not hash to the link are a hash mismatch on every load")
		_ = rawb
	}
}

// HLoadCorrupt: structured corrupt blocks that drive the decoders into their other error paths
// (allocation budget, depth limit, huge declared lengths, truncation inside a string or a
// number, trailing bytes) with free bytes at the deciding positions, against a link whose digest
// is free: whatever the decoder thinks of the bytes, bytes that do not hash to the link are
// reported as a hash mismatch and nothing is returned.
func HLoadCorrupt() {
	lsys.Register()
	x := func(name string) byte { return nd.Byte(name) }
	type tmpl struct {
		codec uint64
		s     []byte
	}
	rep := func(b byte, n int) []byte {
		r := make([]byte, n)
		for i := range r {
			r[i] = b
		}
		return r
	}
	var t tmpl
	switch nd.Choose("template", nd.Param("T", 12)) {
	case 0: // list head with a free high length byte, ten small elements following
		t = tmpl{0x71, append([]byte{0x9a, x("a"), 0x00, 0x00, x("d")}, rep(0x61, 10)...)}
	case 1: // map head with a free 4-byte length
		t = tmpl{0x71, []byte{0xba, x("a"), 0x00, 0x00, 0x01, 0x61, 0x61, x("v")}}
	case 2: // bytes / string / list / map heads with 4-byte lengths
		t = tmpl{0x71, []byte{x("h"), x("a"), 0x00, 0x00, 0x01, 0x41}}
	case 3: // a free head byte in front of a ten-entry list body
		t = tmpl{0x71, append([]byte{x("h")}, rep(0x01, 10)...)}
	case 4: // nesting beyond the depth limit
		t = tmpl{0x71, append(rep(0x81, 1030), x("leaf"))}
	case 5: // a well-formed item and trailing bytes
		t = tmpl{0x71, []byte{0x82, 0x01, 0x02, x("t1"), x("t2")}}
	case 6: // dag-json: truncations and garbage inside and after a value
		t = tmpl{0x0129, []byte{'{', '"', 'a', '"', ':', x("v"), x("w")}}
	case 7:
		t = tmpl{0x0129, append(rep('[', 1030), x("leaf"))}
	case 8:
		t = tmpl{0x0129, []byte{'"', '\\', x("e"), '0', '"'}}
	case 9: // plain cbor, plain json, raw
		t = tmpl{0x51, []byte{0x9a, x("a"), 0x00, 0x00, x("d"), 0x01}}
	case 10:
		t = tmpl{0x0200, []byte{'[', x("v"), ',', x("w")}}
	case 11:
		t = tmpl{0x55, []byte{x("a"), 0x00, x("c")}}
	}
	S := t.s
	D := nd.Bytes("D", 2)
	lnk := lsys.V1Link(t.codec, lsys.FoldCode, D)
	fx, fs := lsys.Fold(S)
	hashOK := nd.And(fx == D[0], fs == D[1])
	ls := cidlink.DefaultLinkSystem()
	rd := &lsys.Reader{S: S, FailAt: -1, Err: errInjected, Chunked: false, Eager: false}
	ls.StorageReadOpener = func(linking.LinkContext, datamodel.Link) (io.Reader, error) { return rd, nil }
	var n datamodel.Node
	var rawb []byte
	var err error
	form := nd.Choose("form", 4)
	nd.NoPanic("load", func() {
		switch form {
		case 0:
			n, err = ls.Load(linking.LinkContext{}, lnk, basicnode.Prototype.Any)
		case 1:
			rawb, err = ls.LoadRaw(linking.LinkContext{}, lnk)
		case 2:
			n, rawb, err = ls.LoadPlusRaw(linking.LinkContext{}, lnk, basicnode.Prototype.Any)
		case 3:
			nb := basicnode.Prototype.Any.NewBuilder()
			err = ls.Fill(linking.LinkContext{}, lnk, nb)
		}
	})
	if err == nil {
		nd.Reach("loaded")
		nd.Assert(hashOK, "a load succeeds only if the stored bytes hash to the link")
		if form == 1 || form == 2 {
			nd.Assert(nd.EqBytes(rawb, S), "the raw bytes returned are the stored bytes")
		}
	} else {
		nd.Reach("error")
		nd.Assert(n == nil && (form == 2 || rawb == nil), "nothing is returned with an error")
		_, isMismatch := err.(linking.ErrHashMismatch)
		nd.Assert(nd.Implies(!hashOK, isMismatch), "bytes that do not hash to the link are reported as hash mismatch, whatever error the decoder met first")
	}
}

type failWriter struct {
	failAt int
	n      int
	failed bool
	buf    bytes.Buffer
}

func (w *failWriter) Write(p []byte) (int, error) {
	if w.n == w.failAt {
		w.failed = true
		return 0, errInjected
	}
	w.n++
	return w.buf.Write(p)
}

type undefLink struct{}

// HStoreFail: an encoder or writer failure never commits a block.
func HStoreFail() {
	lsys.Register()
	codec := codecs[nd.Choose("codec", len(codecs))]
	lp := cidlink.LinkPrototype{Prefix: lsys.V1Link(codec, lsys.FoldCode, []byte{0, 0}).Prefix()}
	committed := false
	w := &failWriter{failAt: -1}
	// a value with one leaf the codec cannot encode, or a healthy value with a failing writer
	var n datamodel.Node
	unencodable := nd.Choose("bad", 2) == 1
	nb := basicnode.Prototype.Any.NewBuilder()
	la, _ := nb.BeginList(3)
	la.AssembleValue().AssignInt([]int64{0, -1, 1 << 40}[nd.Choose("i", 3)])
	if unencodable {
		la.AssembleValue().AssignLink(cidlink.Link{}) // undefined CID: refused by the DAG codecs, links refused by cbor/json
	} else {
		la.AssembleValue().AssignString(nd.String("s", 2))
		if w.failAt = nd.Choose("failat", 5); w.failAt == 4 {
			w.failAt = -1 // a healthy writer
		}
	}
	la.AssembleValue().AssignBool(true)
	la.Finish()
	n = nb.Build()
	if codec == 0x55 {
		if unencodable {
			n = basicnode.NewInt(1) // raw encodes bytes only
		} else {
			n = basicnode.NewBytes(nd.Bytes("b", 2))
			w.failAt = nd.Choose("rawfail", 2) - 1
		}
	}
	ls := cidlink.DefaultLinkSystem()
	ls.StorageWriteOpener = func(linking.LinkContext) (io.Writer, linking.BlockWriteCommitter, error) {
		return w, func(datamodel.Link) error { committed = true; return nil }, nil
	}
	var err error
	nd.NoPanic("store", func() { _, err = ls.Store(linking.LinkContext{}, lp, n) })
	nd.Assert(!(w.failed && committed), "a store during which a storage write failed never commits a block")
	nd.Assert(!(w.failed && err == nil), "a storage write failure surfaces as an error from Store")
	if err != nil {
		nd.Reach("failed")
		nd.Assert(!committed, "a store whose encoding or writing failed never commits")
	} else {
		nd.Reach("stored")
		nd.Assert(!unencodable, "an unencodable value is not stored")
		nd.Assert(committed, "a successful store commits")
	}
}
