// Package c15: traversal controls only restrict a walk; they never change what it would visit.
package c15

import (
	"io"

	"github.com/ipld/go-ipld-prime/datamodel"
	nd "github.com/ipld/go-ipld-prime/internal/verifnd"
	"github.com/ipld/go-ipld-prime/linking"
	"github.com/ipld/go-ipld-prime/traversal"
	"github.com/ipld/go-ipld-prime/traversal/selector"
	"github.com/ipld/go-ipld-prime/zzverif/ref/gen"
	"github.com/ipld/go-ipld-prime/zzverif/ref/graph"
	"github.com/ipld/go-ipld-prime/zzverif/ref/refval"
	"github.com/ipld/go-ipld-prime/zzverif/ref/selgen"
)

var graphs = []string{
	"[<[tn]>{c<{cs1}>}n]",
	"{c<[s1<i>]>ctc<[n]>}",
	"[<[t]><[t]>n<[t]>]",
	"[[tn]s1[b1]]",
	"{1<[t]>2<[n]>ci}", // sibling keys of different lengths: the solver may make one a prefix of the other
}

var matcher = &selgen.Sel{Op: '.'}
var edge = &selgen.Sel{Op: '@'}
var selectors = []*selgen.Sel{
	{Op: 'R', LimitNone: true, Subs: []*selgen.Sel{{Op: '|', Subs: []*selgen.Sel{matcher, {Op: 'a', Subs: []*selgen.Sel{edge}}}}}},
	{Op: 'R', LimitNone: true, Subs: []*selgen.Sel{{Op: 'a', Subs: []*selgen.Sel{edge}}}},
	{Op: 'a', Subs: []*selgen.Sel{{Op: 'a', Subs: []*selgen.Sel{matcher}}}},
	{Op: 'R', Depth: 2, Subs: []*selgen.Sel{{Op: '|', Subs: []*selgen.Sel{matcher, {Op: 'a', Subs: []*selgen.Sel{edge}}}}}},
	// clauses with explicit interests (index, field, range) on the way to links
	{Op: 'i', Index: 0, Subs: []*selgen.Sel{{Op: '|', Subs: []*selgen.Sel{matcher, {Op: 'a', Subs: []*selgen.Sel{matcher}}}}}},
	{Op: 'f', Fields: []string{"a", "c"}, Subs: []*selgen.Sel{{Op: '|', Subs: []*selgen.Sel{matcher, {Op: 'a', Subs: []*selgen.Sel{matcher}}}}, {Op: 'a', Subs: []*selgen.Sel{matcher}}}},
	{Op: 'R', LimitNone: true, Subs: []*selgen.Sel{{Op: '|', Subs: []*selgen.Sel{matcher, {Op: '|', Subs: []*selgen.Sel{{Op: 'r', Start: 0, End: 2, Subs: []*selgen.Sel{edge}}, {Op: 'f', Fields: []string{"a"}, Subs: []*selgen.Sel{edge}}}}}}}},
	{Op: 'a', Subs: []*selgen.Sel{{Op: 'r', Start: 0, End: 3, Subs: []*selgen.Sel{matcher}}}},
	// selectors that are terminal at the link targets they reach
	{Op: 'a', Subs: []*selgen.Sel{matcher}},
	{Op: 'a', Subs: []*selgen.Sel{{Op: '|', Subs: []*selgen.Sel{matcher, matcher}}}},
}

func compile(s *selgen.Sel) selector.Selector {
	sel, err := selector.CompileSelector(gen.MustBuild(selgen.Doc(s)))
	if err != nil {
		panic(err)
	}
	return sel
}

type visit struct {
	p      datamodel.Path
	v      *refval.V
	reason byte
	opens  int // links opened before this visit
}

type run struct {
	vs    []visit
	opens []datamodel.Link
	err   error
}

func walk(g *graph.G, sel selector.Selector, cfg *traversal.Config, b *traversal.Budget) run {
	var r run
	g.Opens = nil
	nd.NoPanic("walk", func() {
		r.err = traversal.Progress{Cfg: cfg, Budget: b}.WalkAdv(g.Root, sel, func(p traversal.Progress, n datamodel.Node, rs traversal.VisitReason) error {
			r.vs = append(r.vs, visit{p.Path, refval.Of(n), byte(rs), len(g.Opens)})
			return nil
		})
	})
	r.opens = g.Opens
	return r
}

func same(a, b visit) bool {
	return nd.And(a.p.String() == b.p.String(), nd.And(a.reason == b.reason, refval.Equal(a.v, b.v)))
}

func isBudget(err error) bool {
	_, ok := err.(*traversal.ErrBudgetExceeded)
	return ok
}

func setup() (*graph.G, selector.Selector, *traversal.Config, run) {
	g := graph.New("g", graphs[nd.Choose("graph", nd.Param("G", len(graphs)))])
	sel := compile(selectors[nd.Choose("sel", nd.Param("SELS", len(selectors)))])
	cfg := &traversal.Config{LinkSystem: g.LS, LinkTargetNodePrototypeChooser: graph.Chooser}
	u := walk(g, sel, cfg, nil)
	nd.Assert(u.err == nil, "the unrestricted walk succeeds")
	return g, sel, cfg, u
}

// HNodeBudget: a node budget of N (free) makes exactly the first N visits.
func HNodeBudget() {
	g, sel, cfg, u := setup()
	n := nd.Int64("budget")
	nd.Assume(n >= 0)
	r := walk(g, sel, cfg, &traversal.Budget{NodeBudget: n, LinkBudget: 1 << 40})
	if n >= int64(len(u.vs)) {
		nd.Reach("suffices")
		nd.Assert(r.err == nil, "a sufficient node budget changes nothing")
		nd.Assert(len(r.vs) == len(u.vs), "a sufficient node budget changes nothing (visits)")
	} else {
		nd.Reach("exceeded")
		nd.Assert(isBudget(r.err), "an insufficient node budget ends the walk with a budget-exceeded error")
		nd.Assert(int64(len(r.vs)) == n, "a node budget of N allows exactly N visits")
	}
	for i := range r.vs {
		if i < len(u.vs) {
			nd.Assert(same(r.vs[i], u.vs[i]), "the visits made are the first visits of the unrestricted walk")
		}
	}
}

// HLinkBudget: a link budget of L (free) allows exactly the first L loads.
func HLinkBudget() {
	g, sel, cfg, u := setup()
	l := nd.Int64("budget")
	nd.Assume(l >= 0)
	r := walk(g, sel, cfg, &traversal.Budget{NodeBudget: 1 << 40, LinkBudget: l})
	if l >= int64(len(u.opens)) {
		nd.Reach("suffices")
		nd.Assert(r.err == nil && len(r.vs) == len(u.vs), "a sufficient link budget changes nothing")
	} else {
		nd.Reach("exceeded")
		nd.Assert(isBudget(r.err), "an insufficient link budget ends the walk with a budget-exceeded error")
		nd.Assert(int64(len(r.opens)) == l, "a link budget of L allows exactly L block loads")
		// the visits made are those of the unrestricted walk before its (L+1)th load
		k := 0
		for _, v := range u.vs {
			if int64(v.opens) <= l {
				k++
			}
		}
		nd.Assert(len(r.vs) == k, "the walk stops where the next block would have to be loaded")
	}
	for i := range r.vs {
		if i < len(u.vs) {
			nd.Assert(same(r.vs[i], u.vs[i]), "the visits made are the first visits of the unrestricted walk")
		}
	}
}

// HLinkBudgetOtherWalks: the link budget bounds block loads in the matching and the transforming
// walk just as in the visiting walk.
func HLinkBudgetOtherWalks() {
	g, sel, cfg, u := setup()
	l := nd.Int64("budget")
	nd.Assume(l >= 0)
	form := nd.Choose("form", 2)
	g.Opens = nil
	var err error
	nd.NoPanic("walk", func() {
		prog := traversal.Progress{Cfg: cfg, Budget: &traversal.Budget{NodeBudget: 1 << 40, LinkBudget: l}}
		if form == 0 {
			err = prog.WalkMatching(g.Root, sel, func(traversal.Progress, datamodel.Node) error { return nil })
		} else {
			_, err = prog.WalkTransforming(g.Root, sel, func(p traversal.Progress, n datamodel.Node) (datamodel.Node, error) { return n, nil })
		}
	})
	nd.Assert(int64(len(g.Opens)) <= l, "no walk form loads more blocks than the link budget allows")
	if form == 0 {
		if l >= int64(len(u.opens)) {
			nd.Assert(err == nil && len(g.Opens) == len(u.opens), "a sufficient link budget changes nothing")
		} else {
			nd.Assert(isBudget(err) && int64(len(g.Opens)) == l, "an insufficient link budget ends the matching walk with a budget-exceeded error after exactly L loads")
		}
	} else if err == nil {
		nd.Reach("transformed")
	}
	nd.Reach("end")
}

// HStartAt: a start path taken from the unrestricted sequence yields exactly its tail.
func HStartAt() {
	g, sel, cfg, u := setup()
	k := nd.Choose("start", len(u.vs))
	cfg2 := *cfg
	cfg2.StartAtPath = u.vs[k].p
	r := walk(g, sel, &cfg2, nil)
	nd.Assert(r.err == nil, "walk with a start path succeeds")
	// the tail begins at the first visit whose path equals the start path
	first := k
	for i := 0; i < k; i++ {
		if u.vs[i].p.String() == u.vs[k].p.String() {
			first = i
			break
		}
	}
	nd.Assert(len(r.vs) == len(u.vs)-first, "the walk yields exactly the tail of the unrestricted visit sequence beginning at the start path")
	if len(r.vs) == len(u.vs)-first {
		for i := range r.vs {
			nd.Assert(same(r.vs[i], u.vs[first+i]), "the tail is visited unchanged and in order")
		}
	}
	// blocks that lie wholly before the start path are not loaded: every load of the restricted
	// walk happens on the way to, or after, the start path, so it loads no more than the
	// unrestricted walk and nothing it did not load
	nd.Assert(len(r.opens) <= len(u.opens), "no additional blocks are loaded")
	nd.Reach("end")
}

// HVisitOnce: each distinct link is loaded at most once; the visits are a subsequence.
func HVisitOnce() {
	g, sel, cfg, u := setup()
	cfg2 := *cfg
	cfg2.LinkVisitOnlyOnce = true
	r := walk(g, sel, &cfg2, nil)
	nd.Assert(r.err == nil, "walk succeeds")
	for i := range r.opens {
		for j := 0; j < i; j++ {
			nd.Assert(r.opens[i].Binary() != r.opens[j].Binary(), "each distinct link is loaded at most once")
		}
	}
	// subsequence check: greedy matching against u
	j := 0
	for _, v := range r.vs {
		for j < len(u.vs) && !(u.vs[j].p.String() == v.p.String()) {
			j++
		}
		nd.Assert(j < len(u.vs), "every visit also occurs, in the same order, in the unrestricted walk")
		if j < len(u.vs) {
			nd.Assert(same(v, u.vs[j]), "and is the same visit")
			j++
		}
	}
	nd.Reach("end")
}

// HSkipMe: a loader that skips one link removes exactly that block's subtree.
func HSkipMe() {
	g, sel, cfg, u := setup()
	if len(u.opens) == 0 {
		return
	}
	skip := u.opens[nd.Choose("skip", len(u.opens))]
	inner := g.LS.StorageReadOpener
	cfg2 := *cfg
	cfg2.LinkSystem.StorageReadOpener = func(lc linking.LinkContext, l datamodel.Link) (io.Reader, error) {
		if l.Binary() == skip.Binary() {
			return nil, traversal.SkipMe{}
		}
		return inner(lc, l)
	}
	// the paths at which the skipped link is loaded in the unrestricted walk
	var roots []datamodel.Path
	g.Opens = nil
	lcfg := *cfg
	lcfg.LinkSystem.StorageReadOpener = func(lc linking.LinkContext, l datamodel.Link) (io.Reader, error) {
		if l.Binary() == skip.Binary() {
			roots = append(roots, lc.LinkPath)
		}
		return inner(lc, l)
	}
	walk(g, sel, &lcfg, nil)
	r := walk(g, sel, &cfg2, nil)
	nd.Assert(r.err == nil, "walk with a skipping loader succeeds")
	// is p at or below one of the roots? (segment-wise: keys may contain any byte)
	under := func(p datamodel.Path) bool {
		for _, rt := range roots {
			if p.Len() < rt.Len() {
				continue
			}
			all := true
			for i, s := range rt.Segments() {
				if !s.Equals(p.Segments()[i]) {
					all = false
				}
			}
			if all {
				return true
			}
		}
		return false
	}
	var want []visit
	for _, v := range u.vs {
		if !under(v.p) {
			want = append(want, v)
		}
	}
	nd.Assert(len(r.vs) == len(want), "exactly the skipped block's subtree is missing")
	if len(r.vs) == len(want) {
		for i := range want {
			nd.Assert(same(r.vs[i], want[i]), "everything else is visited unchanged")
		}
	}
	nd.Reach("end")
}
