// Package c02: DAG-CBOR encoding is canonical, order-independent, and round-trips.
package c02

import (
	"bytes"

	cid "github.com/ipfs/go-cid"

	plaincbor "github.com/ipld/go-ipld-prime/codec/cbor"
	"github.com/ipld/go-ipld-prime/codec/dagcbor"
	"github.com/ipld/go-ipld-prime/codec/dagjson"
	plainjson "github.com/ipld/go-ipld-prime/codec/json"
	"github.com/ipld/go-ipld-prime/datamodel"
	nd "github.com/ipld/go-ipld-prime/internal/verifnd"
	cidlink "github.com/ipld/go-ipld-prime/linking/cid"
	"github.com/ipld/go-ipld-prime/node/basicnode"
	"github.com/ipld/go-ipld-prime/zzverif/ref/fnode"
	"github.com/ipld/go-ipld-prime/zzverif/ref/gen"
	"github.com/ipld/go-ipld-prime/zzverif/ref/lsys"
	"github.com/ipld/go-ipld-prime/zzverif/ref/refcbor"
	"github.com/ipld/go-ipld-prime/zzverif/ref/refval"
)

// Shapes, smallest first; the tier chooses how many are explored (param S).
var shapes = []string{
	"i", "u", "f", "s2", "b2", "l", "L", "n", "t",
	"[is1]", "{1i1s1}", "{2i1n}", "{1b12t}",
	"[[i]{1l}]", "{1{1i}1[f]}",
	"{1i1i1s2}", "{2n1t0u}", "{1[s1b1]2{1n}}", "[{1i1t}{1i1t}]",
	"{1i2i1i}", "{1{1i1i}1{1n1n}}", "[l{1L}]", "{1s12s11s11n}",
}

func checkEncode(v, inserted *refval.V, n datamodel.Node) {
	var buf bytes.Buffer
	var err error
	nd.NoPanic("encode", func() { err = dagcbor.Encode(n, &buf) })
	nd.Assert(err == nil, "encodable value encodes without error")
	if err != nil {
		return
	}
	got := buf.Bytes()
	want := refcbor.Encode(nil, v)
	nd.ObserveBytes("encoded", got)
	nd.Assert(nd.EqBytes(got, want), "encoder output is the canonical DAG-CBOR byte string")
	var el int64
	nd.NoPanic("EncodedLength", func() { el, err = dagcbor.EncodedLength(n) })
	nd.Assert(err == nil, "EncodedLength succeeds when Encode succeeds")
	nd.Assert(el == int64(len(got)), "EncodedLength equals the number of bytes produced")
	nb := basicnode.Prototype.Any.NewBuilder()
	err = dagcbor.Decode(nb, bytes.NewReader(got))
	nd.Assert(err == nil, "the encoder's output decodes")
	if err == nil {
		nd.Assert(refval.Equal(refval.Of(nb.Build()), refcbor.Canon(v)), "decode(encode(v)) = v with map entries in canonical order")
	}
	nd.Reach("end")
}

// HEncode: every shape × every insertion order of every map × {basicnode, foreign node}.
func HEncode() {
	si := nd.Choose("shape", nd.Param("S", len(shapes)))
	v := gen.FromShape("", shapes[si])
	ins := gen.Permute("", v)
	var n datamodel.Node
	if nd.Choose("impl", 2) == 0 {
		n = gen.MustBuild(ins)
	} else {
		n = fnode.New(ins)
	}
	checkEncode(v, ins, n)
}

// HAfterOtherCodecs: the other codecs of the library (which share code and option types with
// this one) were used before in this process: the encoding is still a function of the value alone.
func HAfterOtherCodecs() {
	var scratch bytes.Buffer
	pre := basicnode.NewString("x")
	plaincbor.Encode(pre, &scratch)
	dagjson.Encode(pre, &scratch)
	plainjson.Encode(pre, &scratch)
	nbx := basicnode.Prototype.Any.NewBuilder()
	plaincbor.Decode(nbx, bytes.NewReader([]byte{0x01}))
	ms := []string{"{2i1n}", "[l{1L}]", "{1i1i1s2}"}
	v := gen.FromShape("", ms[nd.Choose("shape", len(ms))])
	ins := gen.Permute("", v)
	checkEncode(v, ins, gen.MustBuild(ins))
}

// HLongString: strings, bytes and keys at the length-head boundaries 23/24/255/256 (content symbolic).
func HLongString() {
	l := []int{23, 24, 255, 256}[nd.Choose("len", 4)]
	s := nd.String("s", l)
	var v *refval.V
	switch nd.Choose("kind", 3) {
	case 0:
		v = refval.MkString(s)
	case 1:
		v = refval.MkBytes([]byte(s))
	default:
		v = refval.MkMap([]string{s, "a"}, []*refval.V{refval.MkNull(), refval.MkInt(1)})
	}
	checkEncode(v, v, gen.MustBuild(v))
}

// HBytesBeforeLink: a bytes node whose slice has spare capacity (as slices cut from a larger
// buffer do), emitted right before a link and again after it: the encoder reads its input and
// leaves it alone — the output is canonical, a second Encode gives the same bytes, and the
// nodes still hold what they held.
func HBytesBeforeLink() {
	blen := 1 + nd.Choose("blen", 2)
	backing := make([]byte, blen, 96)
	content := nd.Bytes("b", blen)
	copy(backing, content)
	bn := basicnode.NewBytes(backing)
	d := nd.Bytes("d", 2)
	l := lsys.V1Link(0x71, 0, d)
	bv := refval.MkBytes(content)
	lv := refval.MkLink(l.Bytes())
	var n datamodel.Node
	var v *refval.V
	mk := func(nb datamodel.NodeBuilder, fill func(datamodel.NodeBuilder)) datamodel.Node {
		fill(nb)
		return nb.Build()
	}
	switch nd.Choose("form", 2) {
	case 0: // [B, link, B]
		v = refval.MkList(bv, lv, bv)
		n = mk(basicnode.Prototype.List.NewBuilder(), func(nb datamodel.NodeBuilder) {
			la, _ := nb.BeginList(3)
			la.AssembleValue().AssignNode(bn)
			la.AssembleValue().AssignLink(l)
			la.AssembleValue().AssignNode(bn)
			la.Finish()
		})
	default: // {"a": B, "b": link}
		v = refval.MkMap([]string{"a", "b"}, []*refval.V{bv, lv})
		n = mk(basicnode.Prototype.Map.NewBuilder(), func(nb datamodel.NodeBuilder) {
			ma, _ := nb.BeginMap(2)
			va, _ := ma.AssembleEntry("a")
			va.AssignNode(bn)
			va, _ = ma.AssembleEntry("b")
			va.AssignLink(l)
			ma.Finish()
		})
	}
	var b1, b2 bytes.Buffer
	nd.Assert(dagcbor.Encode(n, &b1) == nil, "encodes")
	want := refcbor.Encode(nil, v)
	nd.Assert(nd.EqBytes(b1.Bytes(), want), "encoder output is the canonical DAG-CBOR byte string")
	nd.Assert(refval.Equal(refval.Of(n), v), "encoding leaves the encoded node as it was")
	nd.Assert(dagcbor.Encode(n, &b2) == nil, "encodes again")
	nd.Assert(nd.EqBytes(b2.Bytes(), want), "a second Encode of the same node gives the same bytes")
	nd.Reach("end")
}

// HScale: concrete values large in one dimension (lists of 1100 bytes / links / containers /
// scalars, a wide map inserted in descending order, deep nesting, multi-byte keys): one path each.
func HScale() {
	v := gen.Scale(nd.Choose("case", gen.ScaleCases), nd.Param("N", 1100))
	checkEncode(v, v, gen.MustBuild(v))
}

// HWideMap: maps wider than 12 entries (where sort.Slice leaves insertion sort for quicksort) with
// keys of mixed lengths; a few insertion orders; values symbolic bytes.
func HWideMap() {
	n := []int{13, 16, 20}[nd.Choose("width", nd.Param("WIDTHS", 2))]
	base := []string{"k", "bb", "a", "ccc", "ab", "z", "ba", "aaa", "y", "zz", "b", "abc", "x", "aab", "ya", "c", "d", "dd", "ddd", "e"}
	keys := base[:n]
	rot := nd.Choose("rotation", 3) * 5
	reverse := nd.Choose("reverse", 2) == 1
	v := &refval.V{K: refval.Map}
	for i := 0; i < n; i++ {
		k := keys[(i+rot)%n]
		if reverse {
			k = keys[(n-1-i+rot)%n]
		}
		v.Keys = append(v.Keys, k)
		v.L = append(v.L, refval.MkInt(int64(i)))
	}
	checkEncode(v, v, gen.MustBuild(v))
}

// HBoundaryLinks: links whose CID is 22..24 and 254..256 bytes long (the zero-prefixed byte string
// crosses the 23/24 and 255/256 head boundaries): identity multihash with a digest of that many free bytes.
func HBoundaryLinks() {
	cidLen := []int{22, 23, 24, 254, 255, 256}[nd.Choose("cidlen", 6)]
	hdr := 4
	if cidLen > 130 {
		hdr = 5 // the multihash length needs a two-byte varint
	}
	d := nd.Bytes("d", cidLen-hdr)
	l := lsys.V1Link(0x55, 0, d)
	nd.Assert(len(l.Bytes()) == cidLen, "fixture: CID length")
	v := refval.MkLink(l.Bytes())
	which := nd.Choose("where", 2)
	if which == 1 {
		v = refval.MkList(v, refval.MkNull())
	}
	checkEncode(v, v, gen.MustBuild(v))
}

type notCid struct{}

func (notCid) Prototype() datamodel.LinkPrototype { return nil }
func (notCid) String() string                     { return "x" }
func (notCid) Binary() string                     { return "x" }

// HBadLink: an undefined CID and a non-CID link are refused, not encoded.
func HBadLink() {
	var l datamodel.Link = cidlink.Link{Cid: cid.Undef}
	if nd.Choose("which", 2) == 1 {
		l = notCid{}
	}
	n := basicnode.NewLink(l)
	if nd.Choose("nest", 2) == 1 {
		n = fnode.New(refval.MkList())
		nb := basicnode.Prototype.List.NewBuilder()
		la, _ := nb.BeginList(1)
		la.AssembleValue().AssignLink(l)
		la.Finish()
		n = nb.Build()
	}
	var buf bytes.Buffer
	var err error
	nd.NoPanic("encode", func() { err = dagcbor.Encode(n, &buf) })
	nd.Assert(err != nil, "undefined or non-CID link is refused")
	nd.Reach("end")
}
