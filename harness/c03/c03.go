// Package c03: DAG-CBOR decoding is strict and denotes exactly the bytes it accepts.
package c03

import (
	"bytes"

	"github.com/ipld/go-ipld-prime/codec/dagcbor"
	nd "github.com/ipld/go-ipld-prime/internal/verifnd"
	"github.com/ipld/go-ipld-prime/node/basicnode"
	"github.com/ipld/go-ipld-prime/zzverif/ref/refcbor"
	"github.com/ipld/go-ipld-prime/zzverif/ref/refval"
)

// kfNegIntOverflow: the input contains a negative-integer head 3b ff ff ff ff ff ff ff ff (-2^64),
// which refmt's decodeNegInt (dependency) wraps to 0.
func kfNegIntOverflow(in []byte) bool {
	r := false
	for i := 0; i+9 <= len(in); i++ {
		m := in[i] == 0x3b
		for j := 1; j <= 8; j++ {
			m = nd.And(m, in[i+j] == 0xff)
		}
		r = nd.Or(r, m)
	}
	return r
}

func check(in []byte, opts dagcbor.DecodeOptions, ro refcbor.Options) {
	nb := basicnode.Prototype.Any.NewBuilder()
	var err error
	nd.NoPanic("decode", func() { err = opts.Decode(nb, bytes.NewReader(in)) })
	want, ok := refcbor.DecodeStrict(in, ro)
	nd.ObserveBool("accepted", err == nil)
	if err == nil {
		nd.Reach("accepted")
		if !ok {
			nd.KnownFinding("C03-negint-minus-2^64-wraps-to-0", kfNegIntOverflow(in))
		}
		nd.Assert(ok, "accepted input is one well-formed DAG-CBOR item")
		if ok {
			got := refval.Of(nb.Build())
			nd.Assert(refval.Equal(got, want), "built node denotes the value the bytes encode")
		}
	} else {
		nd.Reach("rejected")
		nd.Assert(!ok, "well-formed DAG-CBOR item is accepted")
	}
}

var strict = dagcbor.DecodeOptions{AllowLinks: true}

// HShort: every byte string of length 0..N.
func HShort() {
	n := nd.Choose("len", nd.Param("N", 3)+1)
	in := nd.Bytes("in", n)
	check(in, strict, refcbor.Options{})
}

// HExact: every byte string of length exactly N.
func HExact() {
	in := nd.Bytes("in", nd.Param("N", 3))
	check(in, strict, refcbor.Options{})
}

// HLink: tag 42 around a byte string of K free bytes (the multibase prefix and the CID are free),
// plus an optional trailing byte.
func HLink() {
	k := nd.Choose("k", nd.Param("K", 6)+1)
	body := nd.Bytes("b", k)
	in := append([]byte{0xd8, 0x2a, 0x40 + byte(k)}, body...)
	if nd.Choose("trail", 2) == 1 {
		in = append(in, nd.Byte("t"))
	}
	check(in, strict, refcbor.Options{})
}

// HWide: one free head of every width followed by up to M free bytes: 64-bit arguments
// (including 3b ff.. and 1b ff..), claimed lengths far beyond the input.
func HWide() {
	w := nd.Choose("w", 4)
	n := []int{2, 3, 5, 9}[w]
	m := nd.Choose("m", nd.Param("M", 1)+1)
	in := nd.Bytes("in", n+m)
	nd.Assume(in[0]&31 == byte(24+w))
	check(in, strict, refcbor.Options{})
}
