// Package c03: DAG-CBOR decoding is strict and denotes exactly the bytes it accepts.
package c03

import (
	"bytes"

	"github.com/ipld/go-ipld-prime/codec/dagcbor"
	nd "github.com/ipld/go-ipld-prime/internal/verifnd"
	"github.com/ipld/go-ipld-prime/node/basicnode"
	"github.com/ipld/go-ipld-prime/zzverif/ref/refcbor"
	"github.com/ipld/go-ipld-prime/zzverif/ref/refval"
)

// kfNegIntOverflow: the input contains a negative-integer head 3b ff ff ff ff ff ff ff ff (-2^64),
// which refmt's decodeNegInt (dependency) wraps to 0.
func kfNegIntOverflow(in []byte) bool {
	r := false
	for i := 0; i+9 <= len(in); i++ {
		m := in[i] == 0x3b
		for j := 1; j <= 8; j++ {
			m = nd.And(m, in[i+j] == 0xff)
		}
		r = nd.Or(r, m)
	}
	return r
}

func check(in []byte, opts dagcbor.DecodeOptions, ro refcbor.Options) {
	nb := basicnode.Prototype.Any.NewBuilder()
	var err error
	nd.NoPanic("decode", func() { err = opts.Decode(nb, bytes.NewReader(in)) })
	want, ok := refcbor.DecodeStrict(in, ro)
	nd.ObserveBool("accepted", err == nil)
	if err == nil {
		nd.Reach("accepted")
		if !ok {
			nd.KnownFinding("C03-negint-minus-2^64-wraps-to-0", kfNegIntOverflow(in))
		}
		nd.Assert(ok, "accepted input is one well-formed DAG-CBOR item")
		if ok {
			got := refval.Of(nb.Build())
			nd.Assert(refval.Equal(got, want), "built node denotes the value the bytes encode")
		}
	} else {
		nd.Reach("rejected")
		nd.Assert(!ok, "well-formed DAG-CBOR item is accepted")
	}
}

var strict = dagcbor.DecodeOptions{AllowLinks: true}

// HShort: every byte string of length 0..N.
func HShort() {
	n := nd.Choose("len", nd.Param("N", 3)+1)
	in := nd.Bytes("in", n)
	check(in, strict, refcbor.Options{})
}

// HExact: every byte string of length exactly N.
func HExact() {
	in := nd.Bytes("in", nd.Param("N", 3))
	check(in, strict, refcbor.Options{})
}

// HLink: tag 42 around a byte string of K free bytes (the multibase prefix and the CID are free),
// plus an optional trailing byte.
func HLink() {
	k := nd.Choose("k", nd.Param("K", 6)+1)
	body := nd.Bytes("b", k)
	in := append([]byte{0xd8, 0x2a, 0x40 + byte(k)}, body...)
	if nd.Choose("trail", 2) == 1 {
		in = append(in, nd.Byte("t"))
	}
	check(in, strict, refcbor.Options{})
}

// HWide: one free head of every width followed by up to M free bytes: 64-bit arguments
// (including 3b ff.. and 1b ff..), claimed lengths far beyond the input.
func HWide() {
	w := nd.Choose("w", 4)
	n := []int{2, 3, 5, 9}[w]
	m := nd.Choose("m", nd.Param("M", 1)+1)
	in := nd.Bytes("in", n+m)
	nd.Assume(in[0]&31 == byte(24+w))
	check(in, strict, refcbor.Options{})
}

func rep(b byte, n int) []byte {
	r := make([]byte, n)
	for i := range r {
		r[i] = b
	}
	return r
}

// entries: n map entries 61 <k> 00 with distinct concrete keys in canonical order.
func entries(n int) []byte {
	var r []byte
	for i := 0; i < n; i++ {
		r = append(r, 0x61, byte('0'+i), 0x00)
	}
	return r
}

// HTemplates: structured inputs longer than the all-bytes-free bound reaches, free at the
// positions that decide acceptance: two-entry maps (duplicate / unsorted keys, non-string keys),
// nesting, indefinite lengths, lengths at the 23/24 and 255/256 head boundaries for strings,
// bytes, lists and maps, and full-size CIDv1/CIDv0 links with free version, codec and multihash head.
func HTemplates() {
	x := func(name string) byte { return nd.Byte(name) }
	digest := rep(0xab, 32)
	var in []byte
	switch nd.Choose("template", nd.Param("T", 20)) {
	case 0:
		in = []byte{0xa2, 0x61, x("k1"), x("v1"), 0x61, x("k2"), x("v2")}
	case 1:
		in = []byte{0x82, 0x81, x("a"), 0x81, x("b")}
	case 2:
		in = []byte{0xa1, 0x61, x("k"), 0x82, x("a"), x("b")}
	case 3:
		in = []byte{0xa1, x("kh"), x("kb"), x("v")}
	case 4:
		in = []byte{0xbf, 0x61, x("k"), x("v"), 0xff}
	case 5:
		in = []byte{x("h"), 0x41, x("a"), 0xff} // 5f/7f/9f... chunked strings and friends
	case 6:
		in = append([]byte{0x78, x("len")}, rep('a', 24)...)
	case 7:
		in = append([]byte{0x58, x("len")}, rep(1, 24)...)
	case 8:
		in = append([]byte{0x98, x("len")}, rep(0, 24)...)
	case 9:
		in = append([]byte{0xb8, x("len")}, entries(24)...)
	case 10:
		in = append([]byte{0x79, x("hi"), x("lo")}, rep('a', 256)...)
	case 11:
		in = append([]byte{0x59, x("hi"), x("lo")}, rep(1, 256)...)
	case 12:
		in = append([]byte{0xd8, 0x2a, 0x58, 0x25, 0x00, x("ver"), x("codec"), x("mh"), x("mhlen")}, digest...)
	case 13:
		in = append([]byte{0xd8, 0x2a, 0x58, 0x23, 0x00, x("mh"), x("mhlen")}, digest...)
	case 14:
		in = append([]byte{0xd8, x("tag"), 0x58, x("len"), x("pre"), 0x01, 0x71, 0x12, 0x20}, digest...)
	case 15:
		in = []byte{0x82, x("a"), 0xa1, 0x61, x("k"), 0x81, x("b")}
	case 16:
		in = []byte{0xa2, 0x62, x("k1"), x("k2"), 0x00, 0x61, x("k3"), x("t")}
	case 17: // 64-bit (un)signed integers as list elements and map values: first and last argument byte free
		in = []byte{0x82, 0x01, x("h"), x("hi"), 0xff, 0xff, 0xff, 0xff, 0xff, 0xff, x("lo")}
		nd.Assume(in[2] == 0x1b || in[2] == 0x3b)
	case 18:
		in = []byte{0xa1, 0x61, 0x61, x("h"), x("hi"), 0, 0, 0, 0, 0, 0, x("lo")}
		nd.Assume(in[3] == 0x1b || in[3] == 0x3b || in[3] == 0xfb)
	case 19: // floats of every width inside a list
		in = []byte{0x82, 0xf9, x("a"), x("b"), 0xfa, x("c"), 0, 0, x("d")}
	}
	check(in, strict, refcbor.Options{})
}
