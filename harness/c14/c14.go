// Package c14: paths address what was visited: walk paths, focus and stepwise lookup agree.
package c14

import (
	"github.com/ipld/go-ipld-prime/datamodel"
	nd "github.com/ipld/go-ipld-prime/internal/verifnd"
	"github.com/ipld/go-ipld-prime/linking"
	"github.com/ipld/go-ipld-prime/node/basicnode"
	"github.com/ipld/go-ipld-prime/traversal"
	"github.com/ipld/go-ipld-prime/traversal/selector"
	"github.com/ipld/go-ipld-prime/zzverif/ref/gen"
	"github.com/ipld/go-ipld-prime/zzverif/ref/graph"
	"github.com/ipld/go-ipld-prime/zzverif/ref/refval"
	"github.com/ipld/go-ipld-prime/zzverif/ref/selgen"
)

var graphs = []string{
	"[[tn]s2[b2]]",
	"{1[ts1]1{cnct}cs2}",
	"[<[tn]>{c<{cs1}>}n]",
	"{1t2<[s1<i>]>}",
	"{c{c{c[tn]}}cn}",
	"[[[[[[ts1]]]]]]",
}

// linkChains: a link to a block that consists of a link (free-path harness only).
var linkChains = []string{"[<<[tn]>>s1]", "{1<<<i>>>}"}

var allRec = &selgen.Sel{Op: 'R', LimitNone: true, Subs: []*selgen.Sel{{Op: '|', Subs: []*selgen.Sel{{Op: '.'}, {Op: 'a', Subs: []*selgen.Sel{{Op: '@'}}}}}}}

func compile(s *selgen.Sel) selector.Selector {
	sel, err := selector.CompileSelector(gen.MustBuild(selgen.Doc(s)))
	if err != nil {
		panic(err)
	}
	return sel
}

// HRoundTrip: a path survives String -> ParsePath when no segment is empty or contains a slash.
func HRoundTrip() {
	n := 1 + nd.Choose("nseg", nd.Param("SEGS", 3))
	var segs []datamodel.PathSegment
	var strs []string
	for i := 0; i < n; i++ {
		s := nd.String("seg", 1+nd.Choose("len", nd.Param("LEN", 2)))
		for j := 0; j < len(s); j++ {
			nd.Assume(s[j] != '/')
		}
		strs = append(strs, s)
		segs = append(segs, datamodel.PathSegmentOfString(s))
	}
	p := datamodel.NewPath(segs)
	q := datamodel.ParsePath(p.String())
	nd.Assert(q.Len() == n, "the number of segments survives")
	if q.Len() == n {
		for i, s := range q.Segments() {
			nd.Assert(s.String() == strs[i], "every segment survives formatting and re-parsing")
			nd.Assert(s.Equals(segs[i]), "and is Equal to the original segment")
		}
	}
	nd.Assert(q.String() == p.String(), "formatting is stable")
	nd.Reach("end")
}

// HPathValues: paths are values: deriving paths from a path (append, join, pop, truncate, shift)
// never changes the path they were derived from nor one derived earlier.
func HPathValues() {
	n := nd.Choose("nseg", nd.Param("SEGS", 6)+1)
	var strs []string
	base := datamodel.Path{}
	for i := 0; i < n; i++ {
		s := nd.String("seg", 1)
		nd.Assume(s[0] != '/')
		strs = append(strs, s)
		// built the way walks build them: one AppendSegment at a time
		base = base.AppendSegmentString(s)
	}
	x, y, z := nd.String("x", 1), nd.String("y", 1), nd.String("z", 1)
	nd.Assume(x[0] != '/' && y[0] != '/' && z[0] != '/')
	same := func(p datamodel.Path, want []string) bool {
		if p.Len() != len(want) {
			return false
		}
		r := true
		for i, s := range p.Segments() {
			r = nd.And(r, s.String() == want[i])
		}
		return r
	}
	with := func(pre []string, more ...string) []string { return append(append([]string{}, pre...), more...) }
	c1 := base.AppendSegmentString(x)
	c2 := base.AppendSegment(datamodel.PathSegmentOfString(y))
	c3 := base.Join(datamodel.NewPath([]datamodel.PathSegment{datamodel.PathSegmentOfString(z), datamodel.PathSegmentOfString(x)}))
	nd.Assert(same(c1, with(strs, x)), "a derived path keeps its value when a sibling is derived from the same parent")
	nd.Assert(same(c2, with(strs, y)), "the second sibling has its own value")
	nd.Assert(same(c3, with(strs, z, x)), "Join gives parent + other")
	nd.Assert(same(base, strs), "the parent path is unchanged")
	if n > 0 {
		p := base.Pop()
		k := nd.Choose("trunc", n+1)
		t := base.Truncate(k)
		p1 := p.AppendSegmentString(z)
		t1 := t.AppendSegmentString(y)
		nd.Assert(same(p1, with(strs[:n-1], z)), "Pop then append gives the expected path")
		nd.Assert(same(t1, with(strs[:k], y)), "Truncate then append gives the expected path")
		nd.Assert(same(base, strs), "deriving from a popped or truncated path leaves the original intact")
		nd.Assert(same(c1, with(strs, x)), "and leaves earlier derived paths intact")
		first, rest := base.Shift()
		nd.Assert(first.String() == strs[0] && same(rest, strs[1:]), "Shift splits off the first segment")
		r1 := rest.AppendSegmentString(x)
		nd.Assert(same(r1, with(strs[1:], x)) && same(base, strs), "appending to the shifted rest leaves the original intact")
	}
	nd.Reach("end")
}

// stepwise resolves path p from n one LookupBySegment at a time, loading links on the way.
func stepwise(g *graph.G, n datamodel.Node, p datamodel.Path) (datamodel.Node, error) {
	for _, seg := range p.Segments() {
		c, err := n.LookupBySegment(seg)
		if err != nil {
			return nil, err
		}
		for c.Kind() == datamodel.Kind_Link {
			l, _ := c.AsLink()
			c, err = g.LS.Load(linking.LinkContext{}, l, basicnode.Prototype.Any)
			if err != nil {
				return nil, err
			}
		}
		n = c
	}
	return n, nil
}

// HVisitPaths: for every visit of a full walk, resolving the visit's path from the root with Get,
// with Focus and segment by segment returns the visited node.
func HVisitPaths() {
	which := nd.Choose("selector", 4)
	ng := nd.Param("G", len(graphs))
	if which > 0 && ng > 3 {
		ng = 3 // the clause-led walks: over the first three graphs (lists, maps, links)
	}
	g := graph.New("g", graphs[nd.Choose("graph", ng)])
	cfg := &traversal.Config{LinkSystem: g.LS, LinkTargetNodePrototypeChooser: graph.Chooser}
	type visit struct {
		p datamodel.Path
		v *refval.V
	}
	var vs []visit
	// the walk of everything, or walks led by field and index clauses with a free name / index
	// (applied to maps and lists alike: whatever they visit must be addressable by the path reported)
	sel := allRec
	match := &selgen.Sel{Op: '.'}
	switch which {
	case 1:
		sel = &selgen.Sel{Op: 'f', Fields: []string{nd.String("field", 1)}, Subs: []*selgen.Sel{{Op: '|', Subs: []*selgen.Sel{match, {Op: 'a', Subs: []*selgen.Sel{match}}}}}}
	case 2:
		sel = &selgen.Sel{Op: 'a', Subs: []*selgen.Sel{{Op: 'f', Fields: []string{nd.String("field", 1)}, Subs: []*selgen.Sel{match}}}}
	case 3:
		sel = &selgen.Sel{Op: 'a', Subs: []*selgen.Sel{{Op: 'i', Index: int64(nd.Choose("index", 3)), Subs: []*selgen.Sel{match}}}}
	}
	err := traversal.Progress{Cfg: cfg}.WalkAdv(g.Root, compile(sel), func(p traversal.Progress, n datamodel.Node, r traversal.VisitReason) error {
		vs = append(vs, visit{p.Path, refval.Of(n)})
		return nil
	})
	nd.Assert(err == nil, "walk")
	nd.Assert(sel != allRec || len(vs) > 1, "the walk visits the graph")
	for _, v := range vs {
		got, err := traversal.Progress{Cfg: cfg}.Get(g.Root, v.p)
		nd.Assert(err == nil, "Get resolves the path of every visit")
		if err == nil {
			nd.Assert(refval.Equal(refval.Of(got), v.v), "Get returns the node that was visited at that path")
		}
		var focused datamodel.Node
		err = traversal.Progress{Cfg: cfg}.Focus(g.Root, v.p, func(p traversal.Progress, n datamodel.Node) error {
			focused = n
			nd.Assert(p.Path.String() == v.p.String(), "Focus reports the path it was given")
			return nil
		})
		nd.Assert(err == nil && focused != nil && refval.Equal(refval.Of(focused), v.v), "Focus reaches the node that was visited at that path")
		sw, err := stepwise(g, g.Root, v.p)
		nd.Assert(err == nil && refval.Equal(refval.Of(sw), v.v), "looking up one segment at a time reaches the same node")
		// the formatted path re-parsed addresses the same node (keys here contain no slash and are not empty)
		ok := true
		for _, s := range v.p.Segments() {
			st := s.String()
			if len(st) == 0 {
				ok = false
			}
			for j := 0; j < len(st); j++ {
				if st[j] == '/' {
					ok = false
				}
			}
		}
		if ok {
			got2, err := traversal.Progress{Cfg: cfg}.Get(g.Root, datamodel.ParsePath(v.p.String()))
			nd.Assert(err == nil && refval.Equal(refval.Of(got2), v.v), "the path re-parsed from its string addresses the same node")
		}
	}
	nd.Reach("end")
}

// refIndex: a list index written as a decimal segment ([+-]?digits, as strconv.ParseInt reads base 10).
func refIndex(s string) (int64, bool) {
	i := 0
	neg := false
	if len(s) > 0 && (s[0] == '+' || s[0] == '-') {
		neg = s[0] == '-'
		i = 1
	}
	if i >= len(s) {
		return 0, false
	}
	var v int64
	for ; i < len(s); i++ {
		if s[i] < '0' || s[i] > '9' {
			return 0, false
		}
		v = v*10 + int64(s[i]-'0')
	}
	if neg {
		v = -v
	}
	return v, true
}

// refResolve: reference resolution on the abstract graph.
func refResolve(v *refval.V, segs []string) (*refval.V, bool) {
	for _, s := range segs {
		switch v.K {
		case refval.Map:
			found := false
			for i, k := range v.Keys {
				if k == s {
					v, found = v.L[i], true
					break
				}
			}
			if !found {
				return nil, false
			}
		case refval.List:
			ix, ok := refIndex(s)
			if !ok || ix < 0 || ix >= int64(len(v.L)) {
				return nil, false
			}
			found := false
			for i, c := range v.L {
				if ix == int64(i) {
					v, found = c, true
					break
				}
			}
			if !found {
				return nil, false
			}
		default:
			return nil, false // a scalar reached early
		}
		for v.K == refval.Link {
			v = v.T
		}
	}
	return v, true
}

// HFreePath: an arbitrary path: Get fails exactly when the reference resolution fails.
func HFreePath() {
	// the first G graphs of the walk harnesses plus graphs in which a link leads to a block whose
	// root is itself a link (resolution follows links until a non-link is reached)
	specs := append(append([]string{}, graphs[:nd.Param("G", len(graphs))]...), linkChains...)
	g := graph.New("g", specs[nd.Choose("graph", len(specs))])
	cfg := &traversal.Config{LinkSystem: g.LS, LinkTargetNodePrototypeChooser: graph.Chooser}
	n := 1 + nd.Choose("nseg", nd.Param("SEGS", 3))
	var segs []datamodel.PathSegment
	var strs []string
	for i := 0; i < n; i++ {
		s := nd.String("seg", nd.Choose("len", nd.Param("LEN", 2)+1))
		strs = append(strs, s)
		segs = append(segs, datamodel.PathSegmentOfString(s))
	}
	var got datamodel.Node
	var err error
	nd.NoPanic("Get", func() { got, err = traversal.Progress{Cfg: cfg}.Get(g.Root, datamodel.NewPath(segs)) })
	want, ok := refResolve(g.V, strs)
	nd.Assert((err == nil) == ok, "resolution fails exactly when a segment does not exist or a scalar is reached early")
	if err == nil && ok {
		nd.Reach("resolved")
		nd.Assert(refval.Equal(refval.Of(got), want), "resolution returns the addressed node")
		sw, err := stepwise(g, g.Root, datamodel.NewPath(segs))
		nd.Assert(err == nil && refval.Equal(refval.Of(sw), want), "stepwise lookup agrees")
	} else {
		nd.Reach("failed")
	}
}
