// Package c16: transforms are pure functional updates, also across links.
package c16

import (
	"github.com/ipld/go-ipld-prime/datamodel"
	nd "github.com/ipld/go-ipld-prime/internal/verifnd"
	"github.com/ipld/go-ipld-prime/linking"
	"github.com/ipld/go-ipld-prime/node/basicnode"
	"github.com/ipld/go-ipld-prime/traversal"
	"github.com/ipld/go-ipld-prime/traversal/selector"
	"github.com/ipld/go-ipld-prime/zzverif/ref/gen"
	"github.com/ipld/go-ipld-prime/zzverif/ref/graph"
	"github.com/ipld/go-ipld-prime/zzverif/ref/refcbor"
	"github.com/ipld/go-ipld-prime/zzverif/ref/refval"
	"github.com/ipld/go-ipld-prime/zzverif/ref/selgen"
)

var graphs = []string{
	"{1i1[ts1]c{cnct}}",
	"[n[ts1]{1i}]",
	"{c<{cict}>c[<[tn]>i]}",
	"[<{c<[i]>}>t]",
}

// resolve: the abstract content of a node with every link followed through the link system
// (T set to the loaded block), so that graphs can be compared by content.
func resolve(n datamodel.Node, ls *linking.LinkSystem) *refval.V {
	v := refval.Of(n)
	return follow(v, ls)
}

func follow(v *refval.V, ls *linking.LinkSystem) *refval.V {
	switch v.K {
	case refval.Link:
		l := gen.LinkOf(v)
		n, err := ls.Load(linking.LinkContext{}, l, basicnode.Prototype.Any)
		if err != nil {
			return &refval.V{}
		}
		c := *v
		c.T = follow(refval.Of(n), ls)
		return &c
	case refval.List, refval.Map:
		c := &refval.V{K: v.K, Keys: v.Keys}
		for _, e := range v.L {
			c.L = append(c.L, follow(e, ls))
		}
		return c
	}
	return v
}

// contentEqual compares two abstract graphs by content: links are equal when their targets are.
func contentEqual(a, b *refval.V) bool {
	if a.K != b.K {
		return false
	}
	switch a.K {
	case refval.Link:
		if a.T == nil || b.T == nil {
			return a.S == b.S
		}
		// a block is stored through DAG-CBOR, which puts map entries in canonical order
		return contentEqual(refcbor.Canon(a.T), refcbor.Canon(b.T))
	case refval.List, refval.Map:
		if len(a.L) != len(b.L) {
			return false
		}
		r := true
		for i := range a.L {
			if a.K == refval.Map {
				r = nd.And(r, a.Keys[i] == b.Keys[i])
			}
			r = nd.And(r, contentEqual(a.L[i], b.L[i]))
		}
		return r
	}
	return refval.Equal(a, b)
}

func refIndex(s string) (int64, bool) {
	if len(s) == 0 {
		return 0, false
	}
	var v int64
	for i := 0; i < len(s); i++ {
		if s[i] < '0' || s[i] > '9' {
			return 0, false
		}
		v = v*10 + int64(s[i]-'0')
	}
	return v, true
}

type update struct {
	repl          *refval.V // nil: delete
	createParents bool
	saw           **refval.V // what the callback should have been shown (nil pointer target: absent)
}

// refUpdate: the reference functional update. ok=false: the update is an error.
func refUpdate(v *refval.V, segs []string, u update) (*refval.V, bool) {
	if v != nil && v.K == refval.Link && len(segs) > 0 { // a link on the way is followed; a link at the target is the target
		t, ok := refUpdate(v.T, segs, u)
		if !ok {
			return nil, false
		}
		return &refval.V{K: refval.Link, T: t}, true
	}
	if len(segs) == 0 {
		*u.saw = v
		return u.repl, true
	}
	seg, rest := segs[0], segs[1:]
	if v == nil { // creating parents
		c, ok := refUpdate(nil, rest, u)
		if !ok {
			return nil, false
		}
		return refval.MkMap([]string{seg}, []*refval.V{c}), true
	}
	switch v.K {
	case refval.Map:
		out := &refval.V{K: refval.Map}
		found := false
		for i, k := range v.Keys {
			if k == seg {
				found = true
				c, ok := refUpdate(v.L[i], rest, u)
				if !ok {
					return nil, false
				}
				if c == nil {
					continue // removed
				}
				out.Keys = append(out.Keys, k)
				out.L = append(out.L, c)
			} else {
				out.Keys = append(out.Keys, k)
				out.L = append(out.L, v.L[i])
			}
		}
		if !found {
			if len(rest) > 0 && !u.createParents {
				return nil, false
			}
			c, ok := refUpdate(nil, rest, u)
			if !ok {
				return nil, false
			}
			out.Keys = append(out.Keys, seg)
			out.L = append(out.L, c)
		}
		return out, true
	case refval.List:
		out := &refval.V{K: refval.List}
		if seg == "-" {
			c, ok := refUpdate(nil, rest, u)
			if !ok {
				return nil, false
			}
			out.L = append(append(out.L, v.L...), c)
			return out, true
		}
		ix, isNum := refIndex(seg)
		if !isNum || ix >= int64(len(v.L)) {
			return nil, false
		}
		for i, e := range v.L {
			if ix == int64(i) {
				c, ok := refUpdate(e, rest, u)
				if !ok {
					return nil, false
				}
				if c != nil { // nil: removed
					out.L = append(out.L, c)
				}
			} else {
				out.L = append(out.L, e)
			}
		}
		return out, true
	}
	return nil, false // a scalar: cannot go deeper
}

// HFocused: one focused transform with a symbolic target path.
func HFocused() {
	shape := graphs[nd.Choose("graph", nd.Param("G", len(graphs)))]
	g := graph.New("g", shape)
	before := resolve(g.Root, &g.LS)
	n := 1 + nd.Choose("nseg", nd.Param("SEGS", 2))
	deeper := false
	if nd.Param("SEGS", 2) == 2 && shape == graphs[2] && nd.Choose("deeper", 2) == 1 {
		// one more level below the first link of the linked map graph (parents created beyond a link)
		n, deeper = 3, true
	}
	var segs []datamodel.PathSegment
	var strs []string
	for i := 0; i < n; i++ {
		if deeper && i == 0 {
			strs = append(strs, "a")
			segs = append(segs, datamodel.PathSegmentOfString("a"))
			continue
		}
		// list segments: digits, "-" (append) or non-numeric; negative numbers are outside the claim
		if nd.Choose("segform", 2) == 1 {
			// a segment made from an integer (as walks over lists make them): addresses list
			// positions and map keys spelled as that number alike
			d := nd.Choose("digit", 3)
			strs = append(strs, string(rune('0'+d)))
			segs = append(segs, datamodel.PathSegmentOfInt(int64(d)))
			continue
		}
		s := nd.String("seg", 1)
		strs = append(strs, s)
		segs = append(segs, datamodel.PathSegmentOfString(s))
	}
	var repl *refval.V
	var replNode datamodel.Node
	identity := false
	switch nd.Choose("op", 3) {
	case 0:
		repl = gen.FromShape("r", "s1")
		replNode = gen.MustBuild(repl)
	case 1: // delete
	case 2:
		identity = true
	}
	cp := nd.Choose("createparents", 2) == 1
	var saw *refval.V
	u := update{repl: repl, createParents: cp, saw: &saw}
	if identity {
		// the replacement is whatever is at the target; compute it by a first reference pass
		var at *refval.V
		_, ok0 := refUpdate(before, strs, update{repl: refval.MkNull(), createParents: cp, saw: &at})
		if !ok0 || at == nil {
			return // identity on a missing target is a delete-of-nothing: outside the claim
		}
		u.repl = at
	}
	want, ok := refUpdate(before, strs, u)
	if ok && repl == nil && !identity && saw == nil {
		return // deleting something that does not exist: outside the claim
	}
	cfg := &traversal.Config{LinkSystem: g.LS, LinkTargetNodePrototypeChooser: graph.Chooser}
	var shown datamodel.Node
	calls := 0
	var out datamodel.Node
	var err error
	nd.NoPanic("FocusedTransform", func() {
		out, err = traversal.Progress{Cfg: cfg}.FocusedTransform(g.Root, datamodel.NewPath(segs), func(p traversal.Progress, x datamodel.Node) (datamodel.Node, error) {
			shown = x
			calls++
			if identity {
				return x, nil
			}
			return replNode, nil
		}, cp)
	})
	nd.Assert((err == nil) == ok, "a transform succeeds exactly when the target position is addressable")
	if err != nil || !ok {
		nd.Reach("refused")
		nd.Assert(contentEqual(resolve(g.Root, &g.LS), before), "the input graph is unchanged")
		return
	}
	nd.Reach("transformed")
	got := resolve(out, &g.LS)
	nd.Assert(contentEqual(got, want), "the result is the original with exactly the target replaced, inserted or removed, everything else equal and in order")
	nd.Assert(contentEqual(resolve(g.Root, &g.LS), before), "the input graph is unchanged")
	if saw != nil {
		nd.Assert(shown != nil && contentEqual(resolve(shown, &g.LS), saw), "the callback sees the node currently at the target")
	}
	untouched(refval.Of(out), refval.Of(g.Root), strs)
}

// untouched: link children that are not on the target path keep their links.
func untouched(got, orig *refval.V, segs []string) {
	if got.K != orig.K || (got.K != refval.Map && got.K != refval.List) {
		return
	}
	for i, c := range orig.L {
		if c.K != refval.Link || i >= len(got.L) {
			continue
		}
		on := false
		if len(segs) > 0 {
			if orig.K == refval.Map {
				on = orig.Keys[i] == segs[0]
			} else if ix, ok := refIndex(segs[0]); ok {
				on = ix == int64(i)
			}
		}
		if !on && len(got.L) == len(orig.L) {
			nd.Assert(got.L[i].K == refval.Link && got.L[i].S == c.S, "blocks not on the target path keep their links")
		}
	}
}

var matcher = &selgen.Sel{Op: '.'}

func compile(s *selgen.Sel) selector.Selector {
	sel, err := selector.CompileSelector(gen.MustBuild(selgen.Doc(s)))
	if err != nil {
		panic(err)
	}
	return sel
}

// HWalking: a selector-driven transform inside one block: matched scalars are replaced, identity elsewhere.
func HWalking() {
	gs := nd.Choose("graph", 3)
	g := graph.New("g", append(graphs[:2:2], "[s3b3[s2]]")[gs])
	before := refval.Of(g.Root)
	sels := []*selgen.Sel{
		{Op: 'a', Subs: []*selgen.Sel{matcher}},
		{Op: 'a', Subs: []*selgen.Sel{{Op: 'a', Subs: []*selgen.Sel{matcher}}}},
		{Op: 'R', LimitNone: true, Subs: []*selgen.Sel{{Op: '|', Subs: []*selgen.Sel{matcher, {Op: 'a', Subs: []*selgen.Sel{{Op: '@'}}}}}}},
		{Op: 'i', Index: nd.Int64("idx"), Subs: []*selgen.Sel{matcher}},
		// a subset matcher: which part of a string or bytes node matched is the matcher's
		// business; the transform is shown, and replaces, the node at the position
		{Op: 'a', Subs: []*selgen.Sel{{Op: '|', Subs: []*selgen.Sel{{Op: '.', Subset: true, From: 0, To: 1}, {Op: 'a', Subs: []*selgen.Sel{{Op: '.', Subset: true, From: 1, To: 2}}}}}}},
	}
	si := nd.Choose("sel", len(sels))
	sel := compile(sels[si])
	mode := nd.Choose("mode", 2) // 0: identity, 1: replace matched scalars by a fixed string
	if si == 4 {
		mode = 0
	} else if gs == 2 {
		return // the graph of longer strings is for the subset matcher
	}
	var out datamodel.Node
	var err error
	nd.NoPanic("WalkTransforming", func() {
		out, err = traversal.WalkTransforming(g.Root, sel, func(p traversal.Progress, x datamodel.Node) (datamodel.Node, error) {
			if mode == 1 && x.Kind() != datamodel.Kind_Map && x.Kind() != datamodel.Kind_List {
				return basicnode.NewString("X"), nil
			}
			return x, nil
		})
	})
	nd.Assert(err == nil, "the walking transform succeeds")
	if err != nil {
		return
	}
	nd.Assert(refval.Equal(refval.Of(g.Root), before), "the input is unchanged")
	if mode == 0 {
		nd.Assert(refval.Equal(refval.Of(out), before), "an identity transform returns an equal tree")
	} else {
		want := mapSelected(before, si, sels[si], 0)
		nd.Assert(refval.Equal(refval.Of(out), want), "exactly the selected scalars are replaced, everything else equal and in order")
	}
	nd.Reach("end")
}

// HSelectorReuse: one compiled selector with explicit interests (fields, index) drives two
// transforming walks in a row, and one over a list of records: each application is what a
// freshly compiled selector gives.
func HSelectorReuse() {
	mk := func() *selgen.Sel {
		return &selgen.Sel{Op: 'a', Subs: []*selgen.Sel{{Op: 'f', Fields: []string{"a", "b"}, Subs: []*selgen.Sel{matcher, matcher}}}}
	}
	g := graph.New("g", []string{"[{cicicn}{cicsc1t}{cnci}]", "{c{cict}c{cs1cn}}"}[nd.Choose("graph", 2)])
	before := refval.Of(g.Root)
	shared := compile(mk())
	fn := func(p traversal.Progress, x datamodel.Node) (datamodel.Node, error) {
		return basicnode.NewString("X"), nil
	}
	var first, second, fresh datamodel.Node
	var e1, e2, e3 error
	nd.NoPanic("transforms", func() {
		first, e1 = traversal.WalkTransforming(g.Root, shared, fn)
		second, e2 = traversal.WalkTransforming(g.Root, shared, fn)
		fresh, e3 = traversal.WalkTransforming(g.Root, compile(mk()), fn)
	})
	nd.Assert(e1 == nil && e2 == nil && e3 == nil, "the transforms succeed")
	if e1 != nil || e2 != nil || e3 != nil {
		return
	}
	want := &refval.V{K: before.K, Keys: before.Keys}
	for _, rec := range before.L {
		r := &refval.V{K: rec.K, Keys: rec.Keys}
		for i, c := range rec.L {
			if rec.K == refval.Map && (rec.Keys[i] == "a" || rec.Keys[i] == "b") {
				r.L = append(r.L, refval.MkString("X"))
			} else {
				r.L = append(r.L, c)
			}
		}
		want.L = append(want.L, r)
	}
	nd.Assert(refval.Equal(refval.Of(first), want), "the first application replaces exactly the selected fields of every record")
	nd.Assert(refval.Equal(refval.Of(second), want), "so does the second application of the same compiled selector")
	nd.Assert(refval.Equal(refval.Of(fresh), want), "and a freshly compiled one")
	nd.Assert(refval.Equal(refval.Of(g.Root), before), "the input is unchanged")
	nd.Reach("end")
}

// mapSelected: the reference result of replacing the scalars a selector matches by "X".
func mapSelected(v *refval.V, si int, s *selgen.Sel, depth int) *refval.V {
	scalar := v.K != refval.Map && v.K != refval.List
	matched := false
	switch si {
	case 0:
		matched = depth == 1
	case 1:
		matched = depth == 2
	case 2:
		matched = true
	case 3:
		matched = depth == 1
	}
	if scalar {
		if matched {
			return refval.MkString("X")
		}
		return v
	}
	out := &refval.V{K: v.K, Keys: v.Keys}
	for i, c := range v.L {
		descend := false
		switch si {
		case 0:
			descend = depth == 0
		case 1:
			descend = depth <= 1
		case 2:
			descend = true
		case 3:
			descend = depth == 0 && v.K == refval.List && s.Index == int64(i)
		}
		if descend {
			out.L = append(out.L, mapSelected(c, si, s, depth+1))
		} else {
			out.L = append(out.L, c)
		}
	}
	return out
}
