// Package c13: generated code compiles and behaves exactly like the reflection binding.
//
// Step 1 (before the encoding is built): the generator of the working tree is run on the schema
// family and its output is compiled; a failure is the violation. Step 2 (this package): both
// engines are driven in lock-step with the same inputs.
package c13

import (
	"bytes"

	"github.com/ipld/go-ipld-prime/codec/dagcbor"
	"github.com/ipld/go-ipld-prime/datamodel"
	nd "github.com/ipld/go-ipld-prime/internal/verifnd"
	"github.com/ipld/go-ipld-prime/schema"
	"github.com/ipld/go-ipld-prime/zzverif/ref/refschema"
	"github.com/ipld/go-ipld-prime/zzverif/ref/refval"
	"github.com/ipld/go-ipld-prime/zzverif/schemas"
	"github.com/ipld/go-ipld-prime/zzverif/typed"
)

var types = []string{"Plain", "OptNull", "Tuple", "Join", "MapSI", "ListS", "UnionK", "UnionKinded", "UnionSP",
	"MapSU", "ListU", "MapSP", "ListT", "MapSN", "ListN", "OptComp", "OptMore", "UnionKinded2", "ListNP", "AllOpt", "Swap", "LeadOpt", "TupleOpt", "UnionSP2", "TupleON", "OptOne", "ListOO", "MapOO", "Outer"}

type outcome struct {
	err      error
	typeLvl  *refval.V
	reprLvl  *refval.V
	encoded  []byte
	panicked bool
}

func drive(engine int, name string, tree *refval.V, reprLevel bool) outcome {
	var o outcome
	proto := typed.Proto(engine, name)
	np := proto.Type
	if reprLevel {
		np = proto.Repr
	}
	nb := np.NewBuilder()
	o.panicked = nd.Panics(func() { o.err = typed.Assign(nb, tree) })
	if o.panicked || o.err != nil {
		return o
	}
	o.panicked = nd.Panics(func() {
		n := nb.Build()
		o.typeLvl = refval.Of(n)
		rn := n.(schema.TypedNode).Representation()
		o.reprLvl = refval.Of(rn)
		var buf bytes.Buffer
		if dagcbor.Encode(rn, &buf) == nil {
			o.encoded = buf.Bytes()
		}
	})
	return o
}

// HLockstep: the same (conforming or mutated) tree into both engines, at representation level
// and at type level.
func HLockstep() {
	ti := nd.Param("T0", 0) + nd.Choose("type", nd.Param("TYPES", len(types))-nd.Param("T0", 0))
	name := types[ti]
	t := schemas.ByName(name)
	g := &refschema.G{NarrowInts: true}
	v := g.Gen(t)
	reprLevel := nd.Choose("level", 2) == 1
	tree := v
	if reprLevel {
		tree = refschema.Repr(t, v)
	}
	nmut := 0
	if ti < nd.Param("MUTBELOW", len(types)) {
		nmut = nd.Choose("mutations", nd.Param("MUT", 1)+1)
	}
	for i := 0; i < nmut; i++ {
		tree = g.Mutate(tree)
	}
	if !reprLevel && t.Kind == "struct" && t.Repr == "tuple" && tree.K == refval.Map {
		// a tuple cannot say that a field before a present one is absent: a type-level tree like
		// that denotes a value without a representation; the two engines accept it and render it
		// differently (recorded finding)
		seenAbsent := false
		for _, f := range t.Fields {
			present := false
			for i, k := range tree.Keys {
				if k == f.Name && tree.L[i].K != refval.Absent {
					present = true
				}
			}
			if !present {
				seenAbsent = true
			} else if seenAbsent {
				nd.KnownFinding("C13-tuple-value-without-representation-rendered-differently", true)
				return
			}
		}
	}
	a := drive(typed.BindExplicit, name, tree, reprLevel)
	b := drive(typed.Generated, name, tree, reprLevel)
	nd.Assert(!a.panicked, "the reflection binding does not panic ["+name+"]")
	nd.Assert(!b.panicked, "the generated code does not panic ["+name+"]")
	if a.panicked || b.panicked {
		return
	}
	nd.ObserveBool("accepted", a.err == nil)
	nd.Assert((a.err == nil) == (b.err == nil), "the same inputs are accepted and rejected by both engines ["+name+"]")
	if a.err != nil || b.err != nil {
		nd.Reach("rejected")
		return
	}
	nd.Reach("accepted")
	nd.Assert(refval.Equal(a.typeLvl, b.typeLvl), "accepted values expose the same type-level content ["+name+"]")
	nd.Assert(refval.Equal(a.reprLvl, b.reprLvl), "accepted values expose the same representation-level content ["+name+"]")
	nd.Assert(a.encoded != nil && b.encoded != nil && nd.EqBytes(a.encoded, b.encoded), "accepted values encode to the same bytes ["+name+"]")
}

var _ = datamodel.Kind_Map
