// Package c04: DAG-JSON encoding round-trips with kinds preserved and is deterministic.
package c04

import (
	"bytes"
	"math"
	"unicode/utf8"

	cid "github.com/ipfs/go-cid"

	"github.com/ipld/go-ipld-prime/codec/dagjson"
	"github.com/ipld/go-ipld-prime/codec/json"
	"github.com/ipld/go-ipld-prime/datamodel"
	nd "github.com/ipld/go-ipld-prime/internal/verifnd"
	"github.com/ipld/go-ipld-prime/node/basicnode"
	"github.com/ipld/go-ipld-prime/zzverif/ref/fnode"
	"github.com/ipld/go-ipld-prime/zzverif/ref/gen"
	"github.com/ipld/go-ipld-prime/zzverif/ref/refval"
)

// Shapes in the grammar of ref/gen, plus: 'I' = int from the boundary list, 'F' = float from the
// concrete list, 'C' = one of three concrete CIDs (v0, v1 base32, v1 identity).
var shapes = []string{
	"I", "F", "s2", "s3", "b2", "b3", "C", "n", "t", "s0", "b0",
	"[Is1]", "{cIcs1}", "{2ncn}", "{cb1ct}", "{1s1}", "{1{cs1}}", "{1n1t}",
	"[[I]{cC}]", "{c{cI}c[F]}", "{cnctcb1}", "[{cnct}{cIct}]", "{cs1cnct}", "{2{cs1}}", "{1n1t1n}", "s4",
}

// near misses of the reserved forms (the decoder's lookahead must replay them): the link form /
// bytes form with a sibling entry, with a non-string payload, with another or a second inner key
var nearReserved = []string{
	`{"/"{"bytes"s1}cI}`, `{"/"s1cn}`, `{"/"{"bytes"I}}`, `{"/"I}`, `{"/"{1s1}}`, `{"/"{"bytes"s1cn}}`,
	`[{"/"{"bytes"s1}cI}t]`, `{"/"{"bytes"s1}"0"s1}`, `{"/"{"bytes"{}}cn}`, `{"/"{"bytes"s1}cncn}`,
}

var intBoundaries = []int64{0, 1, -1, 7, -42, 100, 65535, 1 << 31, -(1 << 31), 1 << 53, -(1 << 53), math.MaxInt64, math.MinInt64, 999999999999}
var floats = []float64{1.5, -0.25, 1e100, 5e-324, 1e21, 1e-7, 123456.789, math.MaxFloat64, -1e-9, 0.1, 1.0, 0.0, -2.0, 1e15, 123456789.0}
var cids = []string{
	"QmdfTbBqBPQ7VNxZEYEj14VmRuZBkqFbiwReogJgS1zR1n",
	"bafyreigh2akiscaildcqabsyg3dfr6chu3fgpregiymsck7e7aqa4s52zy",
	"bafkqaaik",
}

func isIntegral(f float64) bool { return f == math.Trunc(f) && math.Abs(f) < 1e21 }

type ctx struct {
	kfFloat bool
}

// fill replaces the placeholder leaves and constrains the symbolic ones to DAG-JSON's domain.
func (c *ctx) shape(s string) *refval.V {
	// expand I, F, C into decisions before handing the rest to gen
	var custom []*refval.V
	out := []byte(s)
	quoted := false
	for i := range out {
		if out[i] == '"' {
			quoted = !quoted
		}
		if quoted {
			continue
		}
		switch out[i] {
		case 'I':
			custom = append(custom, refval.MkInt(intBoundaries[nd.Choose("I", len(intBoundaries))]))
			out[i] = 'n'
		case 'F':
			f := floats[nd.Choose("F", len(floats))]
			if isIntegral(f) {
				c.kfFloat = true
			}
			custom = append(custom, refval.MkFloat(math.Float64bits(f)))
			out[i] = 'n'
		case 'C':
			cc, err := cid.Decode(cids[nd.Choose("C", len(cids))])
			if err != nil {
				panic(err)
			}
			custom = append(custom, refval.MkLink(cc.Bytes()))
			out[i] = 'n'
		}
	}
	v := gen.FromShape("", string(out))
	// put the custom leaves back in shape order
	k := 0
	var walk func(v *refval.V, pos *int) *refval.V
	walk = func(v *refval.V, pos *int) *refval.V {
		switch v.K {
		case refval.List, refval.Map:
			for i := range v.L {
				v.L[i] = walk(v.L[i], pos)
			}
		}
		return v
	}
	_ = walk
	// second pass over the shape string: track which 'n' were placeholders
	idx := 0
	var rebuild func(v *refval.V) *refval.V
	ph := placeholders(s)
	rebuild = func(v *refval.V) *refval.V {
		switch v.K {
		case refval.List, refval.Map:
			for i := range v.L {
				v.L[i] = rebuild(v.L[i])
			}
			return v
		}
		me := idx
		idx++
		if ph[me] {
			r := custom[k]
			k++
			return r
		}
		return v
	}
	v = rebuild(v)
	c.constrain(v)
	return v
}

// placeholders: for each leaf of the shape (in order) whether it is I/F/C.
func placeholders(s string) []bool {
	var r []bool
	for i := 0; i < len(s); i++ {
		switch s[i] {
		case '"':
			for i++; s[i] != '"'; i++ {
			}
		case 'I', 'F', 'C':
			r = append(r, true)
		case 'n', 't', 'i', 'u', 'f', 'l', 'L':
			r = append(r, false)
		case 's', 'b':
			r = append(r, false)
			i++
		case '{':
		case '}', '[', ']':
		default: // key length digit or concrete key marker 'c'
		}
	}
	return r
}

func (c *ctx) constrain(v *refval.V) {
	switch v.K {
	case refval.String:
		nd.Assume(utf8.ValidString(v.S))
	case refval.List:
		for _, e := range v.L {
			c.constrain(e)
		}
	case refval.Map:
		for i, e := range v.L {
			nd.Assume(utf8.ValidString(v.Keys[i]))
			c.constrain(e)
		}
		// the shapes DAG-JSON reserves
		if len(v.L) == 1 && len(v.Keys[0]) == 1 {
			e := v.L[0]
			if e.K == refval.String {
				nd.Assume(v.Keys[0] != "/")
			}
		}
	}
}

// canonJSON: maps in bytewise key order.
func canonJSON(v *refval.V) *refval.V {
	switch v.K {
	case refval.List:
		n := &refval.V{K: refval.List}
		for _, e := range v.L {
			n.L = append(n.L, canonJSON(e))
		}
		return n
	case refval.Map:
		n := &refval.V{K: refval.Map}
		used := make([]bool, len(v.L))
		for range v.L {
			best := -1
			for j := range v.L {
				if !used[j] && (best < 0 || v.Keys[j] < v.Keys[best]) {
					best = j
				}
			}
			used[best] = true
			n.Keys = append(n.Keys, v.Keys[best])
			n.L = append(n.L, canonJSON(v.L[best]))
		}
		return n
	}
	return v
}

func roundTrip(v *refval.V, n datamodel.Node, kfFloat bool, dag bool) []byte {
	var buf bytes.Buffer
	var err error
	nd.NoPanic("encode", func() {
		if dag {
			err = dagjson.Encode(n, &buf)
		} else {
			err = json.Encode(n, &buf)
		}
	})
	nd.Assert(err == nil, "encodable value encodes without error")
	if err != nil {
		return nil
	}
	got := buf.Bytes()
	nd.ObserveBytes("encoded", got)
	nb := basicnode.Prototype.Any.NewBuilder()
	nd.NoPanic("decode", func() {
		if dag {
			err = dagjson.Decode(nb, bytes.NewReader(got))
		} else {
			err = json.Decode(nb, bytes.NewReader(got))
		}
	})
	nd.Assert(err == nil, "the encoder's output decodes")
	if err != nil {
		return got
	}
	back := refval.Of(nb.Build())
	want := v
	if dag {
		want = canonJSON(v)
	}
	if kfFloat {
		nd.KnownFinding("C04-integral-float-decodes-as-int", true)
	}
	nd.Assert(refval.Equal(back, want), "decode(encode(v)) = v with the same kinds (maps in sorted key order for DAG-JSON)")
	return got
}

// HRoundTrip: DAG-JSON, every shape × insertion order × implementation.
func HRoundTrip() {
	c := &ctx{}
	si := nd.Choose("shape", nd.Param("S", len(shapes)))
	v := c.shape(shapes[si])
	ins := gen.Permute("", v)
	var n datamodel.Node
	if nd.Choose("impl", 2) == 0 {
		n = gen.MustBuild(ins)
	} else {
		n = fnode.New(ins)
	}
	roundTrip(v, n, c.kfFloat, true)
	nd.Reach("end")
}

// HNearReserved: maps that begin like a reserved form but are ordinary maps round-trip like any other.
func HNearReserved() {
	c := &ctx{}
	v := c.shape(nearReserved[nd.Choose("shape", nd.Param("S", len(nearReserved)))])
	ins := gen.Permute("", v)
	var n datamodel.Node
	if nd.Choose("impl", 2) == 0 {
		n = gen.MustBuild(ins)
	} else {
		n = fnode.New(ins)
	}
	roundTrip(v, n, c.kfFloat, true)
	nd.Reach("end")
}

// poison: inputs on which decoding fails, is refused by the target, or (two of them, into the Any
// builder) succeeds after a replayed lookahead, while the decoder is
// looking ahead into a possible reserved form.
var poison = []string{`{"/":`, `{"/":1}`, `{"/":{"bytes":`, `{"/":{"bytes":"AA"`, `{"/":"x"`, `{"/":{"bytes":1}}`, `[{"/":"`, `{"/":{"bytes":"AA"}`, `{"/"`}

// HAfterFailedDecode: a decode that fails part-way (possibly into a target that refuses the
// kind) leaves nothing behind: what follows round-trips as on a fresh start.
func HAfterFailedDecode() {
	for i := 0; i < nd.Param("FAILS", 1); i++ {
		in := poison[nd.Choose("poison", len(poison))]
		var nb datamodel.NodeBuilder = basicnode.Prototype.Any.NewBuilder()
		strTarget := nd.Choose("target", 2) == 1
		if strTarget {
			nb = basicnode.Prototype.String.NewBuilder() // refuses maps and lists
		}
		var err error
		nd.NoPanic("failing decode", func() { err = dagjson.Decode(nb, bytes.NewReader([]byte(in))) })
		if strTarget {
			nd.Assert(err != nil, "a map or list offered to a string builder is an error")
		}
	}
	c := &ctx{}
	ms := []string{"{cIcs1}", "[Is1]", "s2", `{"/"{"bytes"s1}cI}`, "{1n1t}"}
	v := c.shape(ms[nd.Choose("shape", len(ms))])
	roundTrip(v, gen.MustBuild(v), c.kfFloat, true)
	nd.Reach("end")
}

// HScale: concrete values far beyond the symbolic shapes in one dimension: lists and maps of 1100
// entries of one kind (more than the decoder's default depth limit, more than any internal
// buffer), nesting 40 deep, and keys whose order differs between UTF-8 bytes, UTF-16 code units
// and code points. One concrete path each; the round trip is exact.
func HScale() {
	v := gen.Scale(nd.Choose("case", gen.ScaleCases), nd.Param("N", 1100))
	roundTrip(v, gen.MustBuild(v), false, true)
	nd.Reach("end")
}

// HDeterministic: two insertion orders and two implementations of the same value give the same bytes.
func HDeterministic() {
	c := &ctx{}
	ms := []string{"{cIcs1}", "{2ncn}", "{1n1t}", "{c{cIcn}c[t]}", "{cncncncn}"}
	v := c.shape(ms[nd.Choose("shape", len(ms))])
	a := gen.MustBuild(v)
	var b datamodel.Node
	p := gen.Permute("", v)
	if nd.Choose("impl", 2) == 0 {
		b = gen.MustBuild(p)
	} else {
		b = fnode.New(p)
	}
	var ba, bb bytes.Buffer
	nd.Assert(dagjson.Encode(a, &ba) == nil, "encode a")
	nd.Assert(dagjson.Encode(b, &bb) == nil, "encode b")
	nd.Assert(nd.EqBytes(ba.Bytes(), bb.Bytes()), "encoding is a function of the value alone")
	nd.Reach("end")
}

// HPlainJSON: the json codec (no links/bytes): insertion order kept.
func HPlainJSON() {
	c := &ctx{}
	ms := []string{"I", "s2", "F", "[Is1]", "{cIcs1}", "{1t1n}", "{c{cI}c[F]}"}
	v := c.shape(ms[nd.Choose("shape", len(ms))])
	ins := gen.Permute("", v)
	roundTrip(ins, gen.MustBuild(ins), c.kfFloat, false)
	nd.Reach("end")
}
