// Package c10: parsers of untrusted data are total and bounded: error or result, never panic.
package c10

import (
	"bytes"

	"github.com/ipld/go-ipld-prime/codec/dagcbor"
	"github.com/ipld/go-ipld-prime/codec/dagjson"
	"github.com/ipld/go-ipld-prime/codec/raw"
	"github.com/ipld/go-ipld-prime/datamodel"
	nd "github.com/ipld/go-ipld-prime/internal/verifnd"
	"github.com/ipld/go-ipld-prime/node/basicnode"
	"github.com/ipld/go-ipld-prime/traversal"
	"github.com/ipld/go-ipld-prime/traversal/selector"
	"github.com/ipld/go-ipld-prime/zzverif/ref/gen"
	"github.com/ipld/go-ipld-prime/zzverif/ref/selgen"
)

// ---- a counting proxy assembler: accepts everything, allocates nothing, records what the
// decoder asks of its target ----

type tally struct {
	depth, maxDepth int64
	maxHint         int64
	minHint         int64
	cost            int64 // the decoder's documented budget accounting, recomputed independently
	calls           int64
}

type proxy struct{ t *tally }
type proxyMap struct{ t *tally }
type proxyList struct{ t *tally }

func (p proxy) hint(h int64) {
	if h > p.t.maxHint {
		p.t.maxHint = h
	}
	if h < p.t.minHint {
		p.t.minHint = h
	}
	p.t.depth++
	if p.t.depth > p.t.maxDepth {
		p.t.maxDepth = p.t.depth
	}
}
func (p proxy) BeginMap(h int64) (datamodel.MapAssembler, error) {
	p.hint(h)
	return proxyMap{p.t}, nil
}
func (p proxy) BeginList(h int64) (datamodel.ListAssembler, error) {
	p.hint(h)
	return proxyList{p.t}, nil
}
func (p proxy) scalar(c int64) error               { p.t.cost += c; p.t.calls++; return nil }
func (p proxy) AssignNull() error                  { return p.scalar(0) }
func (p proxy) AssignBool(bool) error              { return p.scalar(1) }
func (p proxy) AssignInt(int64) error              { return p.scalar(1) }
func (p proxy) AssignFloat(float64) error          { return p.scalar(1) }
func (p proxy) AssignString(s string) error        { return p.scalar(int64(len(s))) }
func (p proxy) AssignBytes(b []byte) error         { return p.scalar(int64(len(b))) }
func (p proxy) AssignLink(datamodel.Link) error    { return p.scalar(1) }
func (p proxy) AssignNode(datamodel.Node) error    { return p.scalar(1) }
func (p proxy) Prototype() datamodel.NodePrototype { return basicnode.Prototype.Any }

func (m proxyMap) AssembleKey() datamodel.NodeAssembler { return proxy{m.t} }
func (m proxyMap) AssembleValue() datamodel.NodeAssembler {
	return proxy{m.t}
}
func (m proxyMap) AssembleEntry(k string) (datamodel.NodeAssembler, error) {
	m.t.cost += int64(len(k)) + 8
	return proxy{m.t}, nil
}
func (m proxyMap) Finish() error                                 { m.t.depth--; return nil }
func (m proxyMap) KeyPrototype() datamodel.NodePrototype         { return basicnode.Prototype.String }
func (m proxyMap) ValuePrototype(string) datamodel.NodePrototype { return basicnode.Prototype.Any }
func (l proxyList) AssembleValue() datamodel.NodeAssembler {
	l.t.cost += 4
	return proxy{l.t}
}
func (l proxyList) Finish() error                                { l.t.depth--; return nil }
func (l proxyList) ValuePrototype(int64) datamodel.NodePrototype { return basicnode.Prototype.Any }

func cborOptions() dagcbor.DecodeOptions {
	var o dagcbor.DecodeOptions
	o.AllowLinks = nd.Bool("links")
	o.RelaxedDecode = nd.Bool("relaxed")
	o.DontParseBeyondEnd = nd.Bool("stopatend")
	o.MaxDepth = nd.Int64("maxdepth")
	o.AllocationBudget = nd.Int64("budget")
	o.MaxCollectionPrealloc = nd.Int64("prealloc")
	return o
}

func eff(v, def int64) int64 {
	if v > 0 {
		return v
	}
	return def
}

// HCborProxy: the DAG-CBOR/CBOR decoder under every option setting feeding the proxy.
func HCborProxy() {
	in := nd.Bytes("in", nd.Choose("len", nd.Param("N", 3)+1))
	o := cborOptions()
	t := &tally{}
	var err error
	nd.NoPanic("decode", func() { err = o.Decode(proxy{t}, bytes.NewReader(in)) })
	maxDepth := eff(o.MaxDepth, 1024)
	prealloc := eff(o.MaxCollectionPrealloc, 1024)
	budget := o.AllocationBudget
	if budget == 0 {
		budget = 1048576 * 10
	}
	nd.Assert(t.maxDepth <= maxDepth, "nesting handed to the assembler never exceeds the configured maximum depth")
	nd.Assert(t.maxHint <= prealloc, "size hints never exceed the preallocation cap, whatever length the input claims")
	nd.Assert(t.minHint >= 0, "size hints are never negative")
	if err == nil {
		nd.Reach("accepted")
		nd.Assert(budget < 0 || t.cost <= budget, "accepted input stays within the allocation budget")
	} else {
		nd.Reach("rejected")
		nd.Assert(budget < 0 || t.cost-int64(len(in))-8 <= budget, "work done before rejecting is bounded by budget + input length")
	}
}

// HCborAlloc: the decoder feeding the real basicnode builder; the executor's allocation counter
// (bytes requested by make/new/append/map inserts, a term over the symbolic lengths) is bounded
// by 256*budget + 256*len(input) + 16KiB (a hinted map entry costs about 100 bytes in basicnode against 1 unit of budget).
func HCborAlloc() {
	in := nd.Bytes("in", nd.Choose("len", nd.Param("N", 3)+1))
	var o dagcbor.DecodeOptions
	o.AllowLinks = true
	o.RelaxedDecode = nd.Bool("relaxed")
	o.AllocationBudget = nd.Int64("budget")
	o.MaxCollectionPrealloc = nd.Int64("prealloc")
	nd.Assume(o.AllocationBudget >= 0 && o.AllocationBudget <= 1<<20)
	nd.Assume(o.MaxCollectionPrealloc >= 0 && o.MaxCollectionPrealloc <= 1<<16)
	budget := o.AllocationBudget
	if budget == 0 {
		budget = 1048576 * 10
	}
	nb := basicnode.Prototype.Any.NewBuilder()
	rd := bytes.NewReader(in)
	nd.AllocStart()
	var err error
	nd.NoPanic("decode", func() { err = o.Decode(nb, rd) })
	a := nd.AllocBytes()
	_ = err
	nd.Assert(a <= 256*budget+256*int64(len(in))+16384, "allocation is bounded by 256*budget + 256*len(input) + 16KiB")
	nd.Reach("end")
}

// HCborWide: heads with 2-, 4- and 8-byte arguments (declared lengths up to 2^64-1) for every
// major type, followed by a few items, into the proxy (hints, depth, budget) and into the real
// builder (allocation counter): the claims of HCborProxy / HCborAlloc for inputs whose length
// fields are far larger than the input.
func HCborWide() {
	w := nd.Choose("width", 3)
	n := []int{3, 5, 9}[w]
	in := append(nd.Bytes("head", n), 0x61, 0x61, 0x01, 0x01)
	nd.Assume(in[0]&31 == byte(25+w))
	// the high bytes free, the middle ones zero: lengths like 0x01000000, 0xff00000000000001
	for i := 2; i < n-1; i++ {
		nd.Assume(in[i] == 0)
	}
	var o dagcbor.DecodeOptions
	o.AllowLinks = true
	o.AllocationBudget = nd.Int64("budget")
	o.MaxCollectionPrealloc = nd.Int64("prealloc")
	nd.Assume(o.AllocationBudget >= 0 && o.AllocationBudget <= 1<<20)
	nd.Assume(o.MaxCollectionPrealloc >= 0 && o.MaxCollectionPrealloc <= 1<<16)
	budget := o.AllocationBudget
	if budget == 0 {
		budget = 1048576 * 10
	}
	if nd.Choose("target", 2) == 0 {
		t := &tally{}
		var err error
		nd.NoPanic("decode", func() { err = o.Decode(proxy{t}, bytes.NewReader(in)) })
		nd.Assert(t.maxHint <= eff(o.MaxCollectionPrealloc, 1024) && t.minHint >= 0, "size hints stay within [0, preallocation cap], whatever length the input claims")
		if err == nil {
			nd.Assert(t.cost <= budget, "accepted input stays within the allocation budget")
		} else {
			nd.Assert(t.cost-int64(len(in))-8 <= budget, "work done before rejecting is bounded by budget + input length")
		}
	} else {
		nb := basicnode.Prototype.Any.NewBuilder()
		nd.AllocStart()
		nd.NoPanic("decode", func() { o.Decode(nb, bytes.NewReader(in)) })
		a := nd.AllocBytes()
		nd.Assert(a <= 256*budget+256*int64(len(in))+16384, "allocation is bounded by 256*budget + 256*len(input) + 16KiB")
	}
	nd.Reach("end")
}

// HJson: the DAG-JSON/JSON decoder under every option setting, proxy and real builder.
func HJson() {
	in := nd.Bytes("in", nd.Choose("len", nd.Param("N", 2)+1))
	var o dagjson.DecodeOptions
	o.ParseLinks = nd.Bool("links")
	o.ParseBytes = nd.Bool("bytes")
	o.DontParseBeyondEnd = nd.Bool("stopatend")
	o.MaxDepth = nd.Int64("maxdepth")
	t := &tally{}
	var na datamodel.NodeAssembler = proxy{t}
	if nd.Choose("target", 2) == 1 {
		na = basicnode.Prototype.Any.NewBuilder()
	}
	var err error
	nd.NoPanic("decode", func() { err = o.Decode(na, bytes.NewReader(in)) })
	nd.Assert(t.maxDepth <= eff(o.MaxDepth, 1024), "nesting never exceeds the configured maximum depth")
	if err == nil {
		nd.Reach("accepted")
	} else {
		nd.Reach("rejected")
	}
}

// HJsonForms: the reserved DAG-JSON forms ({"/": "<cid>"} and {"/": {"bytes": "<base64>"}}) with
// free payloads of 0..K bytes, malformed continuations and trailers, under every flag setting
// (inputs far longer than the all-bytes-free bound of HJson reaches).
func HJsonForms() {
	s := nd.Bytes("s", nd.Choose("slen", nd.Param("K", 2)+1))
	in := []byte(`{"/":`)
	switch nd.Choose("mid", 6) {
	case 0:
		in = append(append(append(in, '"'), s...), '"')
	case 1:
		in = append(append(append(in, `{"bytes":"`...), s...), `"}`...)
	case 2:
		in = append(append(append(in, `{"bytes":"`...), s...), '"', nd.Byte("b"))
	case 3:
		in = append(append(in, `{"bytes":`...), nd.Byte("b"), '}')
	case 4:
		in = append(append(append(in, `{"`...), s...), `":"AA"}`...)
	case 5:
		in = append(append(append(in, `{"bytes":"AA","`...), s...), `":1}`...)
	}
	switch nd.Choose("post", 4) {
	case 0:
		in = append(in, '}')
	case 1:
		in = append(in, nd.Byte("p"))
	case 2:
		in = append(in, `,"a":1}`...)
	case 3:
	}
	if nd.Choose("wrap", 2) == 1 {
		in = append(append([]byte{'['}, in...), ']')
	}
	var o dagjson.DecodeOptions
	o.ParseLinks = nd.Bool("links")
	o.ParseBytes = nd.Bool("bytes")
	o.DontParseBeyondEnd = nd.Bool("stopatend")
	nb := basicnode.Prototype.Any.NewBuilder()
	var err error
	nd.NoPanic("decode", func() { err = o.Decode(nb, bytes.NewReader(in)) })
	if err == nil {
		nd.NoPanic("build", func() { nb.Build().Kind() })
		nd.Reach("accepted")
	} else {
		nd.Reach("rejected")
	}
}

// HJsonDeep: nesting of '[' and '{"a":' against a free MaxDepth.
func HJsonDeep() {
	d := nd.Param("D", 4)
	var in []byte
	for i := 0; i < d; i++ {
		if nd.Choose("open", 2) == 0 {
			in = append(in, '[')
		} else {
			in = append(in, `{"a":`...)
		}
	}
	in = append(in, nd.Byte("x"))
	var o dagjson.DecodeOptions
	o.MaxDepth = nd.Int64("maxdepth")
	t := &tally{}
	nd.NoPanic("decode", func() { o.Decode(proxy{t}, bytes.NewReader(in)) })
	nd.Assert(t.maxDepth <= eff(o.MaxDepth, 1024), "nesting never exceeds the configured maximum depth")
	nd.Reach("end")
}

// HCborDeep: nested arrays/maps against a free MaxDepth.
func HCborDeep() {
	d := nd.Param("D", 4)
	var in []byte
	for i := 0; i < d; i++ {
		if nd.Choose("open", 2) == 0 {
			in = append(in, 0x81)
		} else {
			in = append(in, 0xa1, 0x61, 'a')
		}
	}
	in = append(in, nd.Byte("x"))
	var o dagcbor.DecodeOptions
	o.MaxDepth = nd.Int64("maxdepth")
	t := &tally{}
	nd.NoPanic("decode", func() { o.Decode(proxy{t}, bytes.NewReader(in)) })
	nd.Assert(t.maxDepth <= eff(o.MaxDepth, 1024), "nesting never exceeds the configured maximum depth")
	nd.Reach("end")
}

// HRaw: the raw codec into every basicnode prototype.
func HRaw() {
	in := nd.Bytes("in", nd.Choose("len", nd.Param("N", 3)+1))
	ps := []datamodel.NodePrototype{basicnode.Prototype.Any, basicnode.Prototype.Bytes, basicnode.Prototype.String, basicnode.Prototype.Map}
	nb := ps[nd.Choose("proto", len(ps))].NewBuilder()
	var err error
	nd.NoPanic("decode", func() { err = raw.Decode(nb, bytes.NewReader(in)) })
	if err == nil {
		b, e2 := nb.Build().AsBytes()
		nd.Assert(e2 == nil && nd.EqBytes(b, in), "raw decode yields the input bytes")
	}
	nd.Reach("end")
}

// ---- selectors ----

var graphs = []string{
	"[[[ii]i]i]",
	"[s3b3[s1]]",
	"{c[is1]c{cnct}ci}",
	"i",
}

// HSelector: every selector document of the grammar (all integers free, ill-typed documents
// included) is compiled; whatever compiles is walked over every graph.
func HSelector() {
	g := &selgen.Gen{FieldLen: 1, Fields: 2, Ops: ".afir|R", IllTyped: true, Subsets: true}
	if nd.Param("LEAN", 0) == 1 { // deeper but leaner: no fields clause, no ill-typed documents below the top
		g = &selgen.Gen{FieldLen: 1, Fields: 1, Ops: "air|R", Subsets: false}
	}
	s := g.Top(nd.Param("D", 2))
	boundRanges(s)
	doc := gen.MustBuild(selgen.Doc(s))
	var sel selector.Selector
	var err error
	nd.NoPanic("compile", func() { sel, err = selector.CompileSelector(doc) })
	if err != nil {
		nd.Reach("rejected")
		return
	}
	nd.Reach("compiled")
	data := gen.MustBuild(gen.FromShape("g", graphs[nd.Choose("graph", nd.Param("G", len(graphs)))]))
	visits := 0
	nd.NoPanic("walk", func() {
		err = traversal.WalkAdv(data, sel, func(p traversal.Progress, n datamodel.Node, r traversal.VisitReason) error {
			visits++
			return nil
		})
	})
	nd.NoPanic("walkmatching", func() {
		err = traversal.WalkMatching(data, sel, func(p traversal.Progress, n datamodel.Node) error { return nil })
	})
	nd.Reach("walked")
}

// boundRanges: a range's width is either at most 4 (then start is within [-4,4]: before, inside
// and beyond every list of the graphs) or beyond the enumeration cap of the implementation
// (1024, any start): the loop that enumerates a range's indices has a symbolic trip count and
// each enumerated index is formatted in decimal when applied to a map; widths 5..1024 and narrow
// ranges far from zero are outside the claim.
func boundRanges(s *selgen.Sel) {
	if s.Op == 'r' {
		w := uint64(s.End) - uint64(s.Start)
		nd.Assume(s.Start >= s.End || (w <= 4 && s.Start >= -4 && s.Start <= 4) || w > 1024)
	}
	for _, c := range s.Subs {
		boundRanges(c)
	}
}

// ---- paths ----

// HPath: ParsePath / String / segment accessors on every string of up to N bytes.
func HPath() {
	s := nd.String("p", nd.Choose("len", nd.Param("N", 3)+1))
	nd.NoPanic("path", func() {
		p := datamodel.ParsePath(s)
		_ = p.String()
		for _, seg := range p.Segments() {
			seg.Index()
			_ = seg.String()
		}
		p.Len()
		p.Last()
		p.Pop()
		p.Shift()
		if k := nd.Choose("trunc", 3); k <= p.Len() {
			p.Truncate(k)
		}
		datamodel.ParsePathSegment(s).Index()
	})
	nd.Reach("end")
}
