// Package c12: assemblers enforce their protocol: duplicates rejected cleanly, results exact.
package c12

import (
	"github.com/ipld/go-ipld-prime/datamodel"
	nd "github.com/ipld/go-ipld-prime/internal/verifnd"
	"github.com/ipld/go-ipld-prime/node/basicnode"
	"github.com/ipld/go-ipld-prime/zzverif/ref/fnode"
	"github.com/ipld/go-ipld-prime/zzverif/ref/gen"
	"github.com/ipld/go-ipld-prime/zzverif/ref/nodecheck"
	"github.com/ipld/go-ipld-prime/zzverif/ref/refschema"
	"github.com/ipld/go-ipld-prime/zzverif/ref/refval"
	"github.com/ipld/go-ipld-prime/zzverif/schemas"
	"github.com/ipld/go-ipld-prime/zzverif/typed"
)

func isRepeated(err error) bool {
	_, ok := err.(datamodel.ErrRepeatedMapKey)
	return ok
}

// wrongKindInto: an assignment of a kind a string-only position (a map key) cannot hold.
func wrongKindInto(na datamodel.NodeAssembler) error {
	switch nd.Choose("wrong", nd.Param("WRONG", 3)) {
	case 0:
		return na.AssignInt(nd.Int64("wi"))
	case 1:
		return na.AssignBytes([]byte{1})
	case 3:
		return na.AssignBool(true)
	case 4:
		return na.AssignNull()
	}
	_, err := na.BeginMap(0)
	return err
}

// hint: a free size hint (negative included, bounded above since it goes to make) when the tier
// asks for it, otherwise 1.
func hint(name string) int64 {
	if nd.Param("HINTS", 0) == 0 {
		return 1
	}
	h := nd.Int64(name)
	nd.Assume(h <= 1<<16)
	return h
}

var valueShapes = []string{"i", "s1", "n", "[t]", "{1i}"}

// script runs a legal call script on a map assembler: K attempted entries with symbolic keys, each by
// either route, with the two pinned rejections injected by decision; returns the accepted entries.
//
// To keep the script space polynomial: a wrong-kind injection happens at most once per script and
// only at the top level, AssignNode-of-a-string-node keys only for the first entry, nested scripts
// use two value shapes.
func script(ma datamodel.MapAssembler, k int, depth int, pfx string) *refval.V {
	acc := &refval.V{K: refval.Map}
	injected := pfx != ""
	shapesHere := valueShapes[:nd.Param("VSHAPES", 3)]
	if pfx != "" {
		shapesHere = valueShapes[:1]
	}
	rich := nd.Param("RICH", 1) // entries (from the front) that may inject, nest and use node keys
	for i := 0; i < k; i++ {
		key := nd.String(pfx+"k", nd.Param("KEYLEN", 1))
		dup := false
		for _, a := range acc.Keys {
			dup = nd.Or(dup, key == a)
		}
		var va datamodel.NodeAssembler
		var err error
		if nd.Choose(pfx+"route", 2) == 0 {
			va, err = ma.AssembleEntry(key)
		} else {
			ka := ma.AssembleKey()
			if !injected && i < rich && nd.Choose(pfx+"inject", 2) == 1 {
				injected = true
				e2 := wrongKindInto(ka)
				nd.Assert(e2 != nil, "a key assembler reports an assignment of a non-string kind by an error from that call")
			}
			if i >= rich || pfx != "" || nd.Choose(pfx+"keynode", 2) == 0 {
				err = ka.AssignString(key)
			} else {
				err = ka.AssignNode(basicnode.NewString(key))
			}
			if err == nil {
				va = ma.AssembleValue()
			}
		}
		nd.Assert((err != nil) == dup, "a key is rejected exactly when it repeats an accepted key, at the moment it is supplied")
		if err != nil {
			nd.Assert(isRepeated(err), "the rejection is a repeated-key error")
			nd.Reach("rejected")
			continue // the assembler must remain usable
		}
		// the value: a scalar, or a nested container (recursively scripted for maps)
		var val *refval.V
		if depth > 0 && i < rich && nd.Choose(pfx+"nest", 2) == 1 {
			inner, err := va.BeginMap(hint(pfx + "hint"))
			nd.Assert(err == nil, "BeginMap in a value position")
			if err != nil {
				return nil
			}
			val = script(inner, 2, depth-1, pfx+"n")
			if val == nil {
				return nil
			}
		} else {
			val = gen.FromShape(pfx+"v", shapesHere[nd.Choose(pfx+"vshape", len(shapesHere))])
			nd.Assert(gen.Assign(va, val) == nil, "a legal value assignment succeeds")
		}
		acc.Keys = append(acc.Keys, key)
		acc.L = append(acc.L, val)
	}
	nd.Assert(ma.Finish() == nil, "Finish succeeds on a legal script")
	return acc
}

// HMapScript: the scripted map, under the Any and the Map prototype.
func HMapScript() {
	var np datamodel.NodePrototype = basicnode.Prototype.Any
	if nd.Choose("proto", 2) == 1 {
		np = basicnode.Prototype.Map
	}
	nb := np.NewBuilder()
	var acc *refval.V
	nd.NoPanic("script", func() {
		ma, err := nb.BeginMap(hint("hint"))
		nd.Assert(err == nil, "BeginMap")
		if err != nil {
			return
		}
		acc = script(ma, nd.Param("K", 3), nd.Param("DEPTH", 1), "")
	})
	if acc == nil {
		return
	}
	var n datamodel.Node
	nd.NoPanic("Build", func() { n = nb.Build() })
	if n == nil {
		return
	}
	nd.Assert(refval.Equal(refval.Of(n), acc), "the node holds exactly the accepted entries, in order")
	nodecheck.Check(n, acc, nodecheck.Opts{Probe: nd.String("probe", 1), ProbeIx: 0, Deep: false})
	nd.Reach("end")
}

// HListScript: lists of K values incl. nested lists/maps; wrong-kind assignment into a typed scalar builder.
func HListScript() {
	var np datamodel.NodePrototype = basicnode.Prototype.Any
	if nd.Choose("proto", 2) == 1 {
		np = basicnode.Prototype.List
	}
	nb := np.NewBuilder()
	acc := &refval.V{K: refval.List}
	nd.NoPanic("script", func() {
		la, err := nb.BeginList(hint("hint"))
		nd.Assert(err == nil, "BeginList")
		for i := 0; i < nd.Param("K", 3); i++ {
			va := la.AssembleValue()
			var val *refval.V
			if nd.Choose("nest", 2) == 1 {
				inner, err := va.BeginMap(1)
				nd.Assert(err == nil, "BeginMap in a list")
				val = script(inner, 2, 0, "n")
			} else {
				val = gen.FromShape("v", valueShapes[nd.Choose("vshape", len(valueShapes))])
				nd.Assert(gen.Assign(va, val) == nil, "a legal value assignment succeeds")
			}
			acc.L = append(acc.L, val)
		}
		nd.Assert(la.Finish() == nil, "Finish")
	})
	var n datamodel.Node
	nd.NoPanic("Build", func() { n = nb.Build() })
	if n != nil {
		nd.Assert(refval.Equal(refval.Of(n), acc), "the list holds exactly the values assembled, in order")
	}
	nd.Reach("end")
}

// HReuse: a builder used for several values in a row (Build, Reset, begin again): every value
// is assembled as by a fresh builder, whatever kinds came before.
func HReuse() {
	var np datamodel.NodePrototype = basicnode.Prototype.Any
	kinds := 3
	switch nd.Choose("proto", 3) {
	case 1:
		np, kinds = basicnode.Prototype.List, 1
	case 2:
		np, kinds = basicnode.Prototype.Map, 1
	}
	nb := np.NewBuilder()
	var built []datamodel.Node
	var want []*refval.V
	for r := 0; r < nd.Param("ROUNDS", 3); r++ {
		if r > 0 {
			nb.Reset()
		}
		k := nd.Choose("kind", kinds)
		if np == basicnode.Prototype.Map {
			k = 1
		}
		var v *refval.V
		nd.NoPanic("assemble on a reset builder", func() {
			switch k {
			case 0: // a list
				v = &refval.V{K: refval.List}
				la, err := nb.BeginList(hint("hint"))
				nd.Assert(err == nil, "BeginList on a reset builder")
				for i, n := 0, nd.Choose("len", 3); i < n; i++ {
					e := gen.FromShape("e", "i")
					nd.Assert(gen.Assign(la.AssembleValue(), e) == nil, "a legal value assignment succeeds")
					v.L = append(v.L, e)
				}
				nd.Assert(la.Finish() == nil, "Finish")
			case 1: // a map
				ma, err := nb.BeginMap(hint("hint"))
				nd.Assert(err == nil, "BeginMap on a reset builder")
				if err == nil {
					v = script(ma, 2, 0, "m")
				}
			case 2: // a scalar
				v = gen.FromShape("s", "s1")
				nd.Assert(gen.Assign(nb, v) == nil, "a scalar on a reset builder")
			}
		})
		if v == nil {
			return
		}
		var n datamodel.Node
		nd.NoPanic("Build", func() { n = nb.Build() })
		if n == nil {
			return
		}
		built, want = append(built, n), append(want, v)
	}
	for i := range built {
		nd.Assert(refval.Equal(refval.Of(built[i]), want[i]), "every node built holds exactly what was assembled for it, also after the builder went on to other values")
	}
	nd.Reach("end")
}

// HTypedMapScript: typed maps (plain and nullable values) through both engines and both levels:
// entries with free keys, a repeat of an earlier key (whose value may be null) injected after
// any of them, by either route.
func HTypedMapScript() {
	engine := nd.Choose("engine", 3)
	name := []string{"MapSN", "MapSI", "MapSU"}[nd.Choose("type", 3)]
	t := schemas.ByName(name)
	g := &refschema.G{NarrowInts: true}
	v := g.Gen(t)
	level := nd.Choose("level", 2)
	tree := v
	proto := typed.Proto(engine, name).Type
	if level == 1 {
		tree = refschema.Repr(t, v)
		proto = typed.Proto(engine, name).Repr
	}
	nb := proto.NewBuilder()
	ok := true
	nd.NoPanic("script", func() {
		ma, err := nb.BeginMap(int64(len(tree.L)))
		nd.Assert(err == nil, "BeginMap")
		if err != nil {
			ok = false
			return
		}
		injectAfter := nd.Choose("injectafter", len(tree.L)+1)
		for i, c := range tree.L {
			va, err := ma.AssembleEntry(tree.Keys[i])
			nd.Assert(err == nil, "a key not yet present is accepted")
			if err != nil {
				ok = false
				return
			}
			nd.Assert(typed.Assign(va, c) == nil, "its value is accepted")
			if i == injectAfter {
				rep := tree.Keys[nd.Choose("repeat", i+1)]
				var e2 error
				switch nd.Choose("reproute", 3) {
				case 0:
					var va2 datamodel.NodeAssembler
					va2, e2 = ma.AssembleEntry(rep)
					if e2 == nil && va2 != nil {
						e2 = va2.AssignNull() // (engines that can only tell at the value still must refuse)
					}
				case 1:
					e2 = ma.AssembleKey().AssignString(rep)
					if engine == typed.Generated {
						// generated maps learn of a finished key at their next call (recorded
						// finding, see case 2): here the refusal must come from the value assembler
						e2 = ma.AssembleValue().AssignNull()
					}
				case 2:
					e2 = ma.AssembleKey().AssignString(rep)
					if engine == typed.Generated {
						nd.KnownFinding("C12-generated-map-repeated-key-refused-at-value-not-at-key", e2 == nil)
					}
				}
				nd.Assert(e2 != nil, "a repeated key is rejected")
				nd.Reach("rejected")
			}
		}
		nd.Assert(ma.Finish() == nil, "Finish succeeds after a rejected repeat")
	})
	if !ok {
		return
	}
	var n datamodel.Node
	nd.NoPanic("Build", func() { n = nb.Build() })
	if n != nil {
		nd.Assert(refval.Equal(refval.Of(n), v), "the node holds exactly the accepted entries: the rejected call left no visible side effect")
	}
	nd.Reach("end")
}

// HWrongKind: every kind-specific basicnode builder reports every other kind by an error from the call.
func HWrongKind() {
	protos := []datamodel.NodePrototype{basicnode.Prototype.Bool, basicnode.Prototype.Int, basicnode.Prototype.Float, basicnode.Prototype.String,
		basicnode.Prototype.Bytes, basicnode.Prototype.Link, basicnode.Prototype.Map, basicnode.Prototype.List}
	kinds := []refval.Kind{refval.Bool, refval.Int, refval.Float, refval.String, refval.Bytes, refval.Link, refval.Map, refval.List}
	pi := nd.Choose("proto", len(protos))
	vals := []string{"t", "i", "f", "s1", "b1", "l", "{1i}", "[i]", "n", "{}", "[]", "s0", "b0"}
	vi := nd.Choose("val", len(vals))
	v := gen.FromShape("", vals[vi])
	nb := protos[pi].NewBuilder()
	var err error
	switch nd.Choose("route", 3) {
	case 0: // the kind's own Assign* / Begin* calls
		nd.NoPanic("assign", func() { err = gen.Assign(nb, v) })
	case 1: // a whole node of that kind, built by the generic builder
		nd.NoPanic("AssignNode", func() { err = nb.AssignNode(gen.MustBuild(v)) })
	case 2: // a whole node of another implementation
		nd.NoPanic("AssignNode (foreign)", func() { err = nb.AssignNode(fnode.New(v)) })
	}
	if v.K == kinds[pi] {
		nd.Assert(err == nil, "the matching kind is accepted")
		if err == nil {
			nd.Assert(refval.Equal(refval.Of(nb.Build()), v), "and read back")
		}
	} else {
		nd.Assert(err != nil, "an assignment of a kind the builder cannot hold is reported by an error from that call")
	}
	nd.Reach("end")
}

// HTypedScript: the same protocol on typed struct assemblers (reflection binding and generated
// code): fields assembled in order with a repeat of an earlier field injected after any of them,
// by either route; the rejected call must leave no visible side effect.
func HTypedScript() {
	engine := nd.Choose("engine", 3)
	t := schemas.ByName("OptNull")
	g := &refschema.G{}
	v := g.Gen(t)
	level := nd.Choose("level", 2) // 0: type level, 1: representation level (map)
	tree := v
	proto := typed.Proto(engine, "OptNull").Type
	if level == 1 {
		tree = refschema.Repr(t, v)
		proto = typed.Proto(engine, "OptNull").Repr
	}
	nb := proto.NewBuilder()
	ok := true
	nd.NoPanic("script", func() {
		ma, err := nb.BeginMap(int64(len(tree.L)))
		nd.Assert(err == nil, "BeginMap")
		if err != nil {
			ok = false
			return
		}
		injectAfter := nd.Choose("injectafter", len(tree.L)+1) // == len: no injection
		var done []string
		for i, c := range tree.L {
			if c.K == refval.Absent {
				continue
			}
			va, err := ma.AssembleEntry(tree.Keys[i])
			nd.Assert(err == nil, "a field not yet assembled is accepted")
			if err != nil {
				ok = false
				return
			}
			nd.Assert(typed.Assign(va, c) == nil, "its value is accepted")
			done = append(done, tree.Keys[i])
			if i == injectAfter {
				rep := done[nd.Choose("repeat", len(done))]
				var e2 error
				if nd.Choose("reproute", 2) == 0 {
					_, e2 = ma.AssembleEntry(rep)
				} else {
					e2 = ma.AssembleKey().AssignString(rep)
				}
				nd.Assert(e2 != nil, "a repeated field is rejected when the key is supplied")
				nd.Reach("rejected")
			}
		}
		nd.Assert(ma.Finish() == nil, "Finish succeeds after a rejected repeat")
	})
	if !ok {
		return
	}
	var n datamodel.Node
	nd.NoPanic("Build", func() { n = nb.Build() })
	if n != nil {
		nd.Assert(refval.Equal(refval.Of(n), v), "the node holds exactly the accepted fields: the rejected call left no visible side effect")
	}
	nd.Reach("end")
}

// HListpairsScript: a struct with the listpairs representation built at representation level,
// pair by pair; after any pair, a pair naming an already assembled field is begun: its name is
// rejected when it is supplied, the pair is abandoned there, and the assembler stays usable —
// the remaining pairs are accepted and the node is as if the rejected pair had never been offered.
func HListpairsScript() {
	engine := nd.Choose("engine", 2) // bindnode with the user-supplied Go type (where the family has one) and with the inferred one
	name := []string{"Pairs", "LeadOptLP"}[nd.Choose("type", 2)]
	t := schemas.ByName(name)
	g := &refschema.G{NarrowInts: true}
	v := g.Gen(t)
	tree := refschema.Repr(t, v) // a list of [name, value] pairs, absent optionals omitted
	nb := typed.Proto(engine, name).Repr.NewBuilder()
	ok := true
	nd.NoPanic("script", func() {
		la, err := nb.BeginList(int64(len(tree.L)))
		nd.Assert(err == nil, "BeginList")
		if err != nil {
			ok = false
			return
		}
		injectAfter := nd.Choose("injectafter", len(tree.L)+1) // == len: no injection
		for i, pr := range tree.L {
			pa, err := la.AssembleValue().BeginList(2)
			nd.Assert(err == nil, "a pair can be begun")
			if err != nil {
				ok = false
				return
			}
			e1 := pa.AssembleValue().AssignString(pr.L[0].S)
			nd.Assert(e1 == nil, "the name of a field not yet assembled is accepted")
			if e1 != nil {
				ok = false
				return
			}
			nd.Assert(typed.Assign(pa.AssembleValue(), pr.L[1]) == nil, "its value is accepted")
			nd.Assert(pa.Finish() == nil, "the pair finishes")
			if i == injectAfter {
				rep := tree.L[nd.Choose("repeat", i+1)].L[0].S
				pb, err := la.AssembleValue().BeginList(2)
				nd.Assert(err == nil, "a further pair can be begun")
				if err != nil {
					ok = false
					return
				}
				e2 := pb.AssembleValue().AssignString(rep)
				nd.Assert(e2 != nil, "a repeated field name is rejected when the name is supplied")
				nd.Reach("rejected")
			}
		}
		nd.Assert(la.Finish() == nil, "Finish succeeds after a rejected repeat")
	})
	if !ok {
		return
	}
	var n datamodel.Node
	nd.NoPanic("Build", func() { n = nb.Build() })
	if n != nil {
		nd.Assert(refval.Equal(refval.Of(n), v), "the node holds exactly the accepted pairs: the rejected pair left no visible side effect")
	}
	nd.Reach("end")
}
