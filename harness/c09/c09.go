// Package c09: typed builders accept exactly the data that conforms to the schema.
package c09

import (
	"bytes"

	"github.com/ipld/go-ipld-prime/codec/dagcbor"
	"github.com/ipld/go-ipld-prime/datamodel"
	nd "github.com/ipld/go-ipld-prime/internal/verifnd"
	"github.com/ipld/go-ipld-prime/zzverif/ref/gen"
	"github.com/ipld/go-ipld-prime/zzverif/ref/refschema"
	"github.com/ipld/go-ipld-prime/zzverif/ref/refval"
	"github.com/ipld/go-ipld-prime/zzverif/schemas"
	"github.com/ipld/go-ipld-prime/zzverif/typed"
)

var bindTypes = []string{"Plain", "OptNull", "Tuple", "Join", "Pairs", "MapSI", "ListS", "UnionK", "UnionKinded", "UnionSP", "EnumS", "EnumI",
	"MapSU", "ListU", "MapSP", "ListT", "MapSN", "ListN", "OptComp", "OptMore", "UnionKinded2", "ListNP", "AllOpt", "Swap", "LeadOpt", "TupleOpt", "UnionSP2", "UnionSP0", "TupleON", "LeadOptLP", "EnumX", "OptOne", "ListNA", "MapSA", "WithAny", "ListOO", "MapOO", "Outer"}
var genTypes = []string{"Plain", "OptNull", "Tuple", "Join", "MapSI", "ListS", "UnionK", "UnionKinded", "UnionSP",
	"MapSU", "ListU", "MapSP", "ListT", "MapSN", "ListN", "OptComp", "OptMore", "UnionKinded2", "ListNP", "AllOpt", "Swap", "LeadOpt", "TupleOpt", "UnionSP2", "TupleON", "OptOne", "ListOO", "MapOO", "Outer"}

func hasDup(v *refval.V) bool {
	if v.K == refval.Map {
		for i := range v.Keys {
			for j := 0; j < i; j++ {
				if v.Keys[i] == v.Keys[j] {
					return true
				}
			}
		}
	}
	for _, c := range v.L {
		if hasDup(c) {
			return true
		}
	}
	return false
}

// conform: feed a (possibly mutated) representation-level tree to the representation builder.
func conform(engine int, name string, mutate bool) {
	t := schemas.ByName(name)
	g := &refschema.G{NarrowInts: true}
	v := g.Gen(t)
	r := refschema.Repr(t, v)
	mutations := 0
	if mutate {
		mutations = nd.Choose("mutations", nd.Param("MUT", 1)+1)
	}
	for i := 0; i < mutations; i++ {
		r = g.Mutate(r)
	}
	want, ok := refschema.FromRepr(t, r)
	proto := typed.Proto(engine, name)
	nb := proto.Repr.NewBuilder()
	var err error
	route := nd.Choose("route", 2)
	if route == 1 && hasDup(r) {
		route = 2 // a tree with a repeated key cannot be written as DAG-CBOR by the encoder: feed it the way a decoder would
	}
	if route == 0 {
		// explicit assembler calls
		nd.NoPanic("assemble ["+name+"]", func() { err = typed.Assign(nb, r) })
	} else if route == 2 {
		// keys and values assembled separately
		nd.NoPanic("assemble by key and value ["+name+"]", func() { err = refschema.AssignKV(nb, r) })
	} else {
		// through DAG-CBOR bytes
		var buf bytes.Buffer
		nd.Assert(dagcbor.Encode(gen.MustBuild(r), &buf) == nil, "encode the input tree")
		nd.NoPanic("decode ["+name+"]", func() { err = dagcbor.Decode(nb, bytes.NewReader(buf.Bytes())) })
	}
	nd.ObserveBool("accepted", err == nil)
	if err == nil {
		nd.Reach("accepted")
		nd.Assert(ok, "a tree that does not conform to the type is reported by an error, never silently accepted ["+name+"]")
		if ok {
			var got *refval.V
			nd.NoPanic("read", func() { got = refval.Of(nb.Build()) })
			if route == 1 {
				want = typed.CanonMaps(t, want)
			}
			nd.Assert(got != nil && refval.Equal(got, want), "an accepted tree produces exactly the typed value it denotes ["+name+"]")
		}
	} else {
		nd.Reach("rejected")
		nd.Assert(!ok, "a tree that conforms to the type is accepted ["+name+"]")
	}
}

// HBind / HGen: the two engines.
func HBind() {
	ti := nd.Param("T0", 0) + nd.Choose("type", nd.Param("TYPES", len(bindTypes))-nd.Param("T0", 0))
	conform(nd.Choose("inferred", 2), bindTypes[ti], ti < nd.Param("MUTBELOW", len(bindTypes)))
}
func HGen() {
	ti := nd.Param("T0", 0) + nd.Choose("type", nd.Param("TYPES", len(genTypes))-nd.Param("T0", 0))
	conform(typed.Generated, genTypes[ti], ti < nd.Param("MUTBELOW", len(genTypes)))
}

var _ = datamodel.Kind_Map
