package c09

import (
	nd "github.com/ipld/go-ipld-prime/internal/verifnd"
	"github.com/ipld/go-ipld-prime/zzverif/ref/refval"
	"github.com/ipld/go-ipld-prime/zzverif/typed"
)

// HDbgPairs: listpairs with a symbolic field name.
func HDbgPairs() {
	k := nd.String("k", 1)
	r := refval.MkList(refval.MkList(refval.MkString(k), refval.MkInt(5)), refval.MkList(refval.MkString("B"), refval.MkString("x")))
	proto := typed.Proto(0, "Pairs")
	nb := proto.Repr.NewBuilder()
	var err error
	p := nd.Panics(func() { err = typed.Assign(nb, r) })
	nd.ObserveBool("panicked", p)
	nd.ObserveBool("accepted", err == nil)
	nd.Assert(!p, "no panic")
	nd.Assert((err == nil) == (k == "A"), "accepted iff the key is the missing field")
}
