package smoke

import (
	"bytes"

	"github.com/ipld/go-ipld-prime/codec/dagcbor"
	nd "github.com/ipld/go-ipld-prime/internal/verifnd"
	"github.com/ipld/go-ipld-prime/node/basicnode"
)

func HDecode() {
	n := nd.Param("N", 2)
	in := nd.Bytes("in", n)
	nb := basicnode.Prototype.Any.NewBuilder()
	err := dagcbor.Decode(nb, bytes.NewReader(in))
	nd.ObserveBool("accepted", err == nil)
	if err == nil {
		nd.Reach("accepted")
		nd.ObserveInt("kind", int64(nb.Build().Kind()))
	} else {
		nd.Reach("rejected")
	}
	isTag := in[0] >= 0xc0 && in[0] <= 0xdb
	nd.Assert(!(isTag && err == nil), "item starting with a tag head must be rejected")
}
