#!/usr/bin/env python3
# usage: tools_addharness.py <plan file> <prop> '<json of harness entry>'
import json, sys
f, prop, entry = sys.argv[1:4]
p = json.load(open(f))
e = json.loads(entry)
hs = p[prop]['harnesses']
hs[:] = [h for h in hs if h['name'] != e['name']] + [e]
json.dump(p, open(f, 'w'), indent=1)
