#!/opt/veriftools/pyvenv/bin/python3
import json,sys,jsonschema,glob
ms=json.load(open('/root/.vp/MANIFEST.schema.json')); es=json.load(open('/root/.vp/EVIDENCE.schema.json'))
m=json.load(open('/verif/MANIFEST.json')); jsonschema.validate(m,ms); print("manifest ok")
props=[json.loads(l)['id'] for l in open('/verif/properties.jsonl')]
claimed={c['property_id'] for c in m['checks']}; na={c['property_id'] for c in m.get('not_applicable',[])}
assert claimed|na==set(props) and not (claimed&na), (set(props)-claimed-na, claimed&na)
for f in glob.glob('/verif/evidence/*.json'):
    try:
        jsonschema.validate(json.load(open(f)),es); print(f,"ok")
    except Exception as e: print(f,"INVALID",str(e)[:300])
